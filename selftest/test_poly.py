"""self-test of the normal-form prover (symnum/poly.py): run with  .venv/bin/python selftest/test_poly.py"""
import sys
sys.path.insert(0, "/verif")
import z3
from symnum import poly

c, s, x, y, r, sg = z3.Reals("c s x y r sg")
rules = {"s": 1 - c * c, "sg": z3.RealVal(1), "r": x * x + 1}
T = [
    ((c * x + s * y) ** 2 + (-s * x + c * y) ** 2, x * x + y * y, True),      # rotation preserves the norm
    ((c * x + s * y) ** 2 + (-s * x + c * y) ** 2, x * x + 2 * y * y, False),
    (sg * sg * x, x, True),
    (sg * x, x, False),
    (r * r * r * r, (x * x + 1) ** 2, True),
    ((c * c + s * s) * x / (c * c + s * s), x, True),                           # constant denominator modulo the rules
    (x / (c * c - s * s), x, False),
    (s * s * s, s - s * c * c, True),
    (c * s, s * c, True),
    (c * s, s, False),
]
bad = 0
for a, b, want in T:
    got = poly.equal_modulo(a, b, rules)
    if got != want:
        bad += 1
        print("MISMATCH", a, b, want, got)
print("poly self-test:", "ok" if not bad else "%d failures" % bad)
sys.exit(1 if bad else 0)
