#!/bin/bash
# tools/confirm_seed.sh <seed-dir-with-patch.diff-and-demo.py> <name>
# Confirms a seeded change independently in a scratch worktree of /repo HEAD:
#   demo passes without the change, fails with it, and the baseline suite result is unchanged.
D=$1; NAME=$2
W=/tmp/confirm/$NAME
rm -rf $W; git -C /repo worktree prune; git -C /repo worktree add -f --detach $W HEAD >/dev/null 2>&1 || { echo "worktree failed"; exit 2; }
cd $W
export PYTHONPATH=$W MPLBACKEND=Agg HOME=$(mktemp -d)
R0=$( /venv/bin/python $D/demo.py > $W/.demo0.log 2>&1; echo $? )
git apply $D/patch.diff || { echo "$NAME: PATCH DOES NOT APPLY"; git -C /repo worktree remove --force $W; exit 2; }
R1=$( /venv/bin/python $D/demo.py > $W/.demo1.log 2>&1; echo $? )
/venv/bin/python -c "import quantarhei" 2>/dev/null || echo "$NAME: IMPORT FAILS"
if [ "$3" != "nosuite" ]; then
OMP_NUM_THREADS=2 OPENBLAS_NUM_THREADS=2 MKL_NUM_THREADS=2 /venv/bin/python -m pytest -q -p no:cacheprovider --timeout=900 --continue-on-collection-errors --ignore=tests/matplotlib > $W/.suite.log 2>&1
S=$(tail -1 $W/.suite.log)
F=$(grep -E "^(FAILED|ERROR)" $W/.suite.log | sed 's/ - .*//' | sort | md5sum | cut -c1-8)
else S="(suite skipped)"; F=-; fi
echo "$NAME demo_unchanged_rc=$R0 demo_changed_rc=$R1 suite='$S' failset=$F"
cp $W/.demo1.log /tmp/confirm/$NAME.demo_changed.log; cp $W/.suite.log /tmp/confirm/$NAME.suite.log 2>/dev/null
cd /; git -C /repo worktree remove --force $W
rm -rf $HOME
