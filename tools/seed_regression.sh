#!/bin/bash
# tools/seed_regression.sh [seed-id ...]  -- every stored seeded change against its property's quick check,
# in a scratch worktree (VERIF_REPO), /repo untouched, evidence of these mutated runs kept out of /verif/evidence.
# Prints one line per seed: id, exit code (1 = detected), number of VIOLATION lines.
W=/tmp/seedreg
rm -rf $W; git -C /repo worktree prune; git -C /repo worktree add -f --detach $W HEAD >/dev/null 2>&1 || exit 2
EV=$(mktemp -d)
cd /verif
LIST=${@:-$(ls seeded)}
for s in $LIST; do
  P=${s%%-*}
  # the check that detects it may belong to another property (recorded in meta.json: "tools/try_seed.sh <Cxx> ...")
  Q=$(grep -o 'try_seed.sh C[0-9]*' seeded/$s/meta.json 2>/dev/null | head -1 | cut -d' ' -f2); [ -n "$Q" ] && P=$Q
  ( cd $W && git apply /verif/seeded/$s/patch.diff ) || { echo "$s PATCH-DOES-NOT-APPLY"; continue; }
  OUT=$(VERIF_REPO=$W VERIF_EVIDENCE_DIR=$EV ./check $P 2>&1); RC=$?
  echo "$s rc=$RC violations=$(echo "$OUT" | grep -c '^VIOLATION') inconclusive=$(echo "$OUT" | grep -c '^INCONCLUSIVE')"
  git -C $W checkout -- .
done
git -C /repo worktree remove --force $W; rm -rf $EV
