#!/bin/bash
# tools/try_seed.sh <Cxx> <seed-dir> [tier]   -- apply the seeded change to /repo, run the check, undo
P=$1; D=$2; T=${3:-quick}
cd /repo || exit 2
git diff --quiet || { echo "/repo has local changes"; exit 2; }
git apply $D/patch.diff || { echo "$P $D: patch does not apply"; exit 2; }
cd /verif
OUT=$(./check $P --tier $T 2>&1); RC=$?
git -C /repo checkout -- .
echo "== $P $(basename $(dirname $D))/$(basename $D) tier=$T rc=$RC"
echo "$OUT" | grep -E "^(VIOLATION|KNOWN|INCONCLUSIVE|C[0-9]+ tier)" | cut -c1-220 | head -8
