# property -> (technique, DESIGN.md ref, extra note)
CLAIMED = {
    "C01": ("SMT (z3 nonlinear real arithmetic) over symbolic execution of the real tensor-assembly code",
            "4/C01", ""),
}
_NYB = "check not built yet in this round (design in DESIGN.md section 4); not claimed until its harness is sound"
NOT_APPLICABLE = {p: _NYB for p in
                  ["C%02d" % i for i in range(2, 21)]}
SOURCE_COMMITS = []
