# property -> (technique, DESIGN.md ref, extra note)
CLAIMED = {
    "C01": ("SMT (z3 nonlinear real arithmetic) over symbolic execution of the real tensor-assembly code",
            "4/C01", ""),
    "C02": ("SMT (z3 nonlinear real arithmetic) over symbolic execution of whole propagate() runs of the real "
            "density-matrix and state-vector propagators against an independently written Taylor/GKSL reference",
            "4/C02", "Positivity of Lindblad-evolved states and closeness to exp(Lt) follow from the decided "
            "identity (the code computes the degree-L Taylor polynomial of a generator of GKSL form) by the "
            "standard theorems; they are not decided numerically."),
    "C03": ("SMT (z3 real arithmetic) over symbolic execution of the real Aggregate.build / coupling / "
            "transition_dipole / dipole_dipole_interaction code with symbolic molecular parameters", "4/C03", ""),
    "C04": ("SMT (z3 nonlinear real arithmetic) over symbolic execution of the real eigenbasis_of enter/exit protocol, "
            "lazy transformation properties and per-class transform() along bounded context programs; eigh as a "
            "contract stub (spectral parametrisation, determinism, degeneracy case split); prove-then-replace "
            "checkpoint simplification at context boundaries", "4/C04",
            "Polynomial identities that follow from the rotation constraints are discharged by the normal-form prover "
            "(z3 rewriter + reduction modulo the assumed square rules), the rest by the SMT portfolio."),
    "C05": ("SMT (z3 real arithmetic) over symbolic execution of the unit-conversion functions and every "
            "units-managed accessor for all ordered unit pairs; bounded programs of nested contexts / library "
            "calls executed on the real Manager", "4/C05", ""),
    "C06": ("SMT (z3; exp/tanh and the bath's Fourier-transformed correlation function as uninterpreted functions with "
            "instantiated relations) over symbolic execution of the Redfield/Foerster rate-matrix code and the "
            "spectral-density / (1+coth)J code, all branches of the frequency cut-off explored; Foerster rates "
            "against the donor-shifted overlap form with the spline quadrature as a congruent stub", "4/C06",
            "Clauses about numerical agreement with the golden-rule value / integration accuracy are not decided."),
    "C07": ("SMT (z3 nonlinear real arithmetic) over symbolic execution of apply / convert_2_tensor / transform / "
            "_OTI / _TTI / the time-dependent and time-independent Redfield implementations (spline integral as an "
            "uninterpreted congruent function)", "4/C07",
            "The clause about the analytic pure-dephasing limit exp(-i w t - g(t)) is not decided (values of "
            "transcendental functions, step error)."),
    "C08": ("SMT (z3 nonlinear real arithmetic) over symbolic execution of the real EvolutionSuperOperator code: "
            "elementary-step lemma (no abstraction) + grid bookkeeping with the elementary step havoc'ed to an "
            "arbitrary array (checkpoint abstraction) + no-abstraction twin against direct propagation", "4/C08",
            "The clause 'refining the internal step changes U only within the truncation bound' is numerical and "
            "not decided."),
    "C09": ("SMT (z3; exp/tan uninterpreted) over symbolic execution of the real CorrelationFunction constructor and "
            "addition code for every grouping of mixed analytic/value-defined components, SpectralDensity addition "
            "inside units contexts, and the even/odd Fourier parts against cosine/sine sums with exact roots of "
            "unity", "4/C09",
            "FFT-based component types and the measured-vs-declared reorganisation energy are outside the claim."),
    "C10": ("SMT (z3 real arithmetic) over symbolic execution of the real vibronic Aggregate.build / fc_factor / "
            "coupling / transition_dipole code with the Franck-Condon overlap matrix as an uninterpreted matrix per "
            "shift difference; signature sets checked for completeness and uniqueness; set_HR/get_HR with a sqrt stub",
            "4/C10", "The Poisson law and orthogonality of the overlaps (values of exp/eig of a 100-level matrix) "
            "are not decided."),
    "C11": ("SMT (z3 real arithmetic with exact roots of unity; hfft by its defining sum) over symbolic execution of "
            "the real absorption calculator: spectrum vs direct Fourier sum on the returned axis, purity of the "
            "in-place diagonalise/back-transform, per-transition dipole strength / frequency / exciton bath function, "
            "dipole sum rule, quadratic scaling, rotation and relabelling invariance", "4/C11",
            "One open known finding (C11-hfft-axis-displacement). Line positions for physical line shapes and the "
            "dynamics route are not decided."),
    "C12": ("SMT (z3 polynomial real arithmetic) over symbolic execution of the real LabSetup / liouville_pathway "
            "orientational-averaging code: the three full contractions that fix an isotropic rank-4 average, the "
            "bilinear form, rotation invariance (plane rotations) and fourth-power scaling", "4/C12",
            "Also pathway level: for uncoupled molecules (any energy order, different line widths, zero and non-zero "
            "waiting time with unitary evolution) the summed prefactors cancel at every cross-peak position and "
            "equal the monomers' at the diagonal ones (real liouville_pathways_3T, symbolic dipoles); calculator total "
            "= rephasing + non-rephasing. Line-shape values and relaxation during the waiting time are not decided."),
    "C13": ("SMT (z3 nonlinear real arithmetic with exact algebraic roots of unity) over symbolic execution of the "
            "real axis-conjugation and DFunction Fourier-transform code", "4/C13", ""),
    "C14": ("SMT (z3; IEEE exp under/overflow as axioms on an uninterpreted Exp; division-by-zero side "
            "obligations) over symbolic execution of the thermal/impulsive state builders and the real "
            "basis-context machinery with an eigh contract stub", "4/C14", ""),
    "C15": ("SMT (z3 real arithmetic) over symbolic execution of repeated calls on shared propagator / hierarchy / "
            "tensor objects (also with pure dephasing): term-wise equality of results and of input snapshots", "4/C15",
            "One open known finding (C15-refinement-sticks)."),
    "C16": ("Table-SMT (z3 integer queries over the index/link tables the real code builds) + SMT over symbolic "
            "execution of the HEOM right-hand sides and propagate()", "4/C16", ""),
    "C17": ("SMT (z3 nonlinear real arithmetic, Exp uninterpreted with instantiated functional equation) over "
            "symbolic execution of set_rate, the order-4 population propagator and get_PropagationMatrix",
            "4/C17", ""),
    "C18": ("SMT (z3 real arithmetic) over symbolic execution of the real Saveable/Parcel save-load code and the "
            "units/basis-managed accessors along bounded programs of save/load inside units and basis contexts; "
            "dill stubbed by an in-memory deep copy (validated by the concrete replay with the real dill); "
            "save_data/load_data for every format with the array file I/O replaced by stubs carrying the formats' "
            "shape contracts (validated by the replay with real files); savedir/loaddir histories", "4/C18",
            "Open known findings: C18-saved-inside-basis-context (two histories), C18-mat-one-dimensional. Byte-level "
            "file contents are not decided."),
    "C19": ("SMT (z3 linear real arithmetic validity per view) over symbolic execution of the real TwoDResponse "
            "storage code along every bounded operation history, with a ghost ledger as oracle", "4/C19",
            "One open known finding (C19-types-into-pathways) is reported as KNOWN-FINDING."),
    "C20": ("CrossHair (symbolic execution of the real Python helpers over z3 integers), one condition per helper, "
            "reachability twins, counterexamples replayed", "4/C20",
            "CrossHair 0.0.110 'Confirmed over all paths' within the pre: bounds."),
}
_NYB = "check not built yet in this round (design in DESIGN.md section 4); not claimed until its harness is sound"
NOT_APPLICABLE = {}
SOURCE_COMMITS = []
