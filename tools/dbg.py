"""debug: run one harness instance in-process;  tools/dbg.py C13 freq_ft_roundtrip '{"N":5}' [dump.smt2]"""
import sys, json, warnings, time
warnings.simplefilter("ignore")
sys.path.insert(0, "/verif")
import os
sys.path.insert(0, os.environ.get("VERIF_REPO", "/repo"))
import importlib
import quantarhei
from vf import framework
pid, name, params = sys.argv[1], sys.argv[2], json.loads(sys.argv[3])
importlib.import_module("harness." + pid)
h = framework.HARNESSES[(pid, name)]
qt = int(os.environ.get("QT", "20000"))
if os.environ.get("MODE") == "replay":
    print(framework.run_instance_replay(h, params, json.loads(os.environ.get("VALUES", "{}"))))
    sys.exit()
res = framework.run_instance_sym(h, params, qt)
print("status", res["status"], "paths", res["paths"], "wall", res["wall"])
if res["error"]:
    print(res["error"])
from collections import Counter
print(Counter(r["verdict"] for r in res["records"]))
for r in res["records"]:
    if r["verdict"] != "unsat":
        print(r["label"], r["verdict"], r.get("secs"), str(r.get("model"))[:300])
slow = sorted(res["records"], key=lambda r: -r.get("secs", 0))[:5]
print("slowest:", [(r["label"], r.get("secs")) for r in slow])
print("assumptions:", res["assumptions"])
