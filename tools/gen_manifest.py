#!/usr/bin/env python3
"""Regenerates /verif/MANIFEST.json from the table below and validates it."""
import json, os, sys
HERE = os.path.dirname(os.path.dirname(os.path.abspath(__file__)))

LEVEL_TEXT = ("Bounded symbolic verification of the real code: the anchored functions are executed on "
              "symbolic numbers (z3 Real terms inside numpy object arrays / CrossHair for integer code), the "
              "property becomes an assertion over all input values within the stated bounds and z3 decides the "
              "negation (unsat = holds for every value within the bound; sat = concrete counterexample, replayed "
              "on the unpatched code before it is reported); element equalities that are polynomial identities are "
              "discharged beforehand by a normal form (z3's rewriter, then reduction modulo the square rules the "
              "engine has assumed), counted separately in the evidence. Not a proof beyond the bounds.")
NOTE = ("Trusted: z3 5.1 verdicts, numpy object-array dispatch, the stub contracts (eigh/inv/fft/spline/exp) named in "
        "the evidence file, Python floats modelled as exact reals. Bounds and clauses outside the claim are listed "
        "in DESIGN.md section 4 and in evidence.coverage.bounds.")

# property -> (technique, design_ref)
CLAIMED = {
}
NOT_APPLICABLE = {
}

def main():
    sys.path.insert(0, HERE)
    from tools.manifest_table import CLAIMED, NOT_APPLICABLE, SOURCE_COMMITS
    checks = []
    for pid in sorted(CLAIMED):
        tech, ref, note = CLAIMED[pid]
        checks.append(dict(
            property_id=pid,
            quick_cmd="./check %s --tier quick" % pid,
            thorough_cmd="./check %s --tier thorough" % pid,
            evidence_file="/verif/evidence/%s.json" % pid,
            replay_cmd_template="./check %s --replay {path}" % pid,
            engine="symnum",
            level_claimed=dict(category="other", text=LEVEL_TEXT, design_ref=ref),
            level_note=NOTE + (" " + note if note else ""),
            technique=tech))
    m = dict(
        version=1,
        setup_cmd="./setup.sh",
        hooks=dict(guard="TMANCAL74_QUANTARHEI_VERIF",
                   enable="no instrumentation in /repo: all patching happens from the harness process at run time",
                   baseline_off_cmd="cd /repo && /venv/bin/python -m pytest -ra -q -p no:cacheprovider --timeout=900 --continue-on-collection-errors",
                   source_commits=SOURCE_COMMITS, add_only=True),
        engines=[dict(name="symnum", path="/verif/symnum",
                      serves_properties=sorted(CLAIMED),
                      kind_free_text="symbolic number domain (z3 Real terms in numpy object arrays) under the real "
                                     "quantarhei code + z3 validity queries; CrossHair for integer code")],
        checks=checks,
        notes="see DESIGN.md; exit 0 held / 1 VIOLATION (replayed) / 3 inconclusive-or-harness-error",
        not_applicable=[dict(property_id=p, reason=r) for p, r in sorted(NOT_APPLICABLE.items())])
    json.dump(m, open(os.path.join(HERE, "MANIFEST.json"), "w"), indent=1)
    try:
        import jsonschema
        jsonschema.validate(m, json.load(open("/root/.vp/MANIFEST.schema.json")))
        print("MANIFEST valid:", len(checks), "checks,", len(NOT_APPLICABLE), "not applicable")
    except ImportError:
        print("written (jsonschema not available for validation)")

if __name__ == "__main__":
    main()
