"""Harness framework: symbolic execution of harness functions path by path,
in-line discharge of obligations, counterexample replay on the unpatched code,
known-finding matching, evidence and exit codes.

exit 0 : every obligation discharged (unsat) on every path, twins satisfiable
exit 1 : a counterexample was found AND reproduced on the real code, not a known finding
exit 3 : inconclusive / harness error (unknown, timeout, non-reproducing model, vacuous twin)
"""
import os
import sys
import json
import time
import hashlib
import random
import traceback
import multiprocessing
from fractions import Fraction

VERIF = os.path.dirname(os.path.dirname(os.path.abspath(__file__)))
REPO = os.environ.get("VERIF_REPO", "/repo")

HARNESSES = {}   # (pid, name) -> Harness


class Harness:
    def __init__(self, pid, name, fn, quick, thorough, functions, bound, out, timeout):
        self.pid, self.name, self.fn = pid, name, fn
        self.quick, self.thorough = quick, thorough
        self.functions = functions
        self.bound = bound
        self.out = out
        self.timeout = timeout


def harness(pid, name=None, quick=({},), thorough=None, functions=(), bound="", out="",
            timeout=None):
    """register a harness function  fn(cx, **params)"""
    def deco(fn):
        nm = name or fn.__name__
        th = list(thorough) if thorough is not None else list(quick)
        HARNESSES[(pid, nm)] = Harness(pid, nm, fn, list(quick), th, list(functions),
                                      bound, out, timeout)
        return fn
    return deco


def family(label):
    """label family: obligations 'name[idx].re', 'name#lemma[..]' belong to family 'name'"""
    return label.split("[")[0].split("#")[0]


class ReplayMismatch(Exception):
    pass


# ---------------------------------------------------------------------------
# context handed to harness functions
# ---------------------------------------------------------------------------
class Cx:
    def __init__(self, mode, values=None, seed=0, qtimeout=20000, want_smt2=False):
        self.mode = mode                # 'sym' | 'replay'
        self.sym = (mode == "sym")
        self.values = values or {}
        self.rng = random.Random(seed)
        self.records = []               # obligation records
        self.qtimeout = qtimeout
        self.samples = []
        self.want_smt2 = want_smt2
        self.inputs = []                # names of symbolic inputs created
        self.pre = []                   # z3 preconditions (always included)
        self.notes = []
        self.replay_violations = []
        self.precondition_failed = False
        self.npaths = 0
        self.trivial = 0
        self.nf_discharged = 0
        self.normal_form = os.environ.get("VERIF_NO_NF") != "1"

    # ---- inputs --------------------------------------------------------
    def _get(self, name, lo=-2.0, hi=2.0):
        if name in self.values:
            v = self.values[name]
            return float(Fraction(v)) if not isinstance(v, float) else v
        # unconstrained by the model: deterministic generic value
        h = int(hashlib.sha1(name.encode()).hexdigest()[:8], 16) / 0xFFFFFFFF
        return lo + (hi - lo) * h

    def real(self, name, lo=-2.0, hi=2.0):
        self.inputs.append(name)
        if self.sym:
            from symnum import core
            core.ENGINE.input_hints[name] = (lo, hi)
            return core.real(name)
        return self._get(name, lo, hi)

    def cplx(self, name):
        if self.sym:
            from symnum import core
            self.inputs += [name + ".re", name + ".im"]
            core.ENGINE.input_hints[name + ".re"] = (-2.0, 2.0)
            core.ENGINE.input_hints[name + ".im"] = (-2.0, 2.0)
            return core.cplx(name)
        return complex(self._get(name + ".re"), self._get(name + ".im"))

    def real_array(self, name, shape):
        import numpy
        shape = (shape,) if isinstance(shape, int) else tuple(shape)
        a = numpy.empty(shape, dtype=object if self.sym else float)
        for idx in numpy.ndindex(*shape):
            a[idx] = self.real(name + "_" + "_".join(map(str, idx)))
        return a

    def cplx_array(self, name, shape):
        import numpy
        shape = (shape,) if isinstance(shape, int) else tuple(shape)
        a = numpy.empty(shape, dtype=object if self.sym else complex)
        for idx in numpy.ndindex(*shape):
            a[idx] = self.cplx(name + "_" + "_".join(map(str, idx)))
        return a

    def real_symmetric(self, name, n, zero_diag=False):
        import numpy
        a = numpy.empty((n, n), dtype=object if self.sym else float)
        for i in range(n):
            for j in range(i, n):
                v = 0.0 if (i == j and zero_diag) else self.real("%s_%d_%d" % (name, i, j))
                if self.sym and i == j and zero_diag:
                    from symnum import core
                    v = core.lift(0)
                a[i, j] = v
                a[j, i] = v
        return a

    def hermitian(self, name, n):
        import numpy
        a = numpy.empty((n, n), dtype=object if self.sym else complex)
        for i in range(n):
            a[i, i] = self.real("%s_%d_%d" % (name, i, i))
            for j in range(i + 1, n):
                v = self.cplx("%s_%d_%d" % (name, i, j))
                a[i, j] = v
                a[j, i] = v.conjugate()
        return a

    def const_array(self, arr):
        """concrete numbers in the current domain"""
        import numpy
        if self.sym:
            from symnum import core
            return core.to_obj(arr)
        return numpy.array(arr)

    def concrete(self):
        """context manager: real numpy, for building concrete quantarhei objects"""
        if self.sym:
            from symnum import npatch
            return npatch.unpatched()
        import contextlib
        return contextlib.nullcontext()

    # ---- assumptions ---------------------------------------------------
    def assume(self, cond, note=None):
        """precondition on the inputs (part of the claim)"""
        if note and note not in self.notes:
            self.notes.append(note)
        if self.sym:
            from symnum.core import ENGINE, SymBool
            import z3
            c = cond.z if isinstance(cond, SymBool) else cond
            if c is True:
                return
            if c is False:
                c = z3.BoolVal(False)
            self.pre.append(c)
            ENGINE.assumptions.append(c)
            ENGINE.pinned.append(c)
        else:
            if not bool(cond):
                self.precondition_failed = True
                raise ReplayMismatch("model violates precondition %s" % (note,))

    def note(self, text):
        if text not in self.notes:
            self.notes.append(text)

    # ---- obligations ---------------------------------------------------
    def prove(self, label, cond):
        """cond: bool | SymBool | z3 BoolRef ; must hold on every path for all inputs"""
        if self.sym:
            self._prove_sym(label, cond)
        else:
            ok = bool(cond)
            self.records.append(dict(label=label, verdict="held" if ok else "violated"))
            if not ok:
                self.replay_violations.append(dict(label=label, detail="condition false"))

    def prove_eq(self, label, A, B, tol=1e-7, each=True, lemma=False):
        """element-wise equality of scalars / arrays (complex allowed).  lemma=True: every element equality
        the solver has proved is added to the assumptions (a derived fact, available to later queries)"""
        import numpy
        if self.sym:
            from symnum import core
            import z3
            A = numpy.asarray(A, dtype=object)
            B = numpy.asarray(B, dtype=object)
            A, B = numpy.broadcast_arrays(A, B)
            goals = []
            for idx in numpy.ndindex(*A.shape):
                a, b = core.lift(A[idx]), core.lift(B[idx])
                if a is None or b is None:
                    raise TypeError("prove_eq: non-scalar element %r %r" % (A[idx], B[idx]))
                for part, x, y in (("re", a.re, b.re), ("im", a.im, b.im)):
                    if core.isconc(x) and core.isconc(y):
                        if x != y:
                            goals.append((idx, part, z3.BoolVal(False)))
                        continue
                    zx, zy = core.z(x), core.z(y)
                    if zx.eq(zy):
                        continue
                    if self.normal_form and self._nf_equal(zx, zy):
                        self.nf_discharged += 1
                        continue
                    goals.append((idx, part, zx == zy))
            if not goals:
                # both sides are the same terms: nothing for the solver to decide; counted, not stored
                self.trivial += 1
                return
            if each:
                nsat = 0
                for idx, part, g in goals:
                    # one counterexample per assertion is enough: after two failing elements
                    # the remaining elements of this array comparison are not queried
                    if nsat >= 2:
                        break
                    self._prove_sym("%s%s.%s" % (label, list(idx), part), g)
                    if self.records[-1]["verdict"] == "sat":
                        nsat += 1
                    elif lemma and self.records[-1]["verdict"] == "unsat":
                        from symnum.core import ENGINE
                        ENGINE.assumptions.append(g)
                        self.note("equalities proved as lemmas are used by later queries")
            else:
                self._prove_sym(label, z3.And([g for _, _, g in goals]))
        else:
            A = numpy.asarray(A).astype(complex)
            B = numpy.asarray(B).astype(complex)
            A, B = numpy.broadcast_arrays(A, B)
            diff = numpy.abs(A - B)
            scale = max(1.0, float(numpy.max(numpy.abs(A), initial=0.0)),
                        float(numpy.max(numpy.abs(B), initial=0.0)))
            bad = not numpy.all(numpy.isfinite(A)) or not numpy.all(numpy.isfinite(B)) \
                or float(numpy.max(diff, initial=0.0)) > tol * scale
            self.records.append(dict(label=label, verdict="violated" if bad else "held"))
            if bad:
                worst = numpy.unravel_index(numpy.argmax(numpy.nan_to_num(diff, nan=1e300)),
                                            diff.shape) if diff.size else ()
                self.replay_violations.append(dict(
                    label=label, index=[int(i) for i in worst],
                    lhs=str(A[worst]) if diff.size else "", rhs=str(B[worst]) if diff.size else "",
                    maxdiff=float(numpy.nanmax(diff)) if diff.size else 0.0, scale=scale))

    def prove_close(self, label, A, B, atol):
        """element-wise |A - B| <= atol (for quantities that went through concrete floating-point linear algebra,
        where exact equality only holds up to rounding)"""
        import numpy
        if not self.sym:
            A = numpy.asarray(A).astype(complex)
            B = numpy.asarray(B).astype(complex)
            A, B = numpy.broadcast_arrays(A, B)
            diff = numpy.abs(A - B)
            bad = not numpy.all(numpy.isfinite(diff)) or float(numpy.max(diff, initial=0.0)) > 2 * atol
            self.records.append(dict(label=label, verdict="violated" if bad else "held"))
            if bad:
                self.replay_violations.append(dict(label=label, maxdiff=float(numpy.nanmax(diff)), atol=atol))
            return
        from symnum import core
        from fractions import Fraction
        import z3
        A = numpy.asarray(A, dtype=object)
        B = numpy.asarray(B, dtype=object)
        A, B = numpy.broadcast_arrays(A, B)
        tol = Fraction(atol).limit_denominator(10 ** 15)
        goals = []
        for idx in numpy.ndindex(*A.shape):
            a, b = core.lift(A[idx]), core.lift(B[idx])
            for x, y in ((a.re, b.re), (a.im, b.im)):
                if core.isconc(x) and core.isconc(y):
                    if abs(x - y) > tol:
                        goals.append(z3.BoolVal(False))
                    continue
                d = core.z(x) - core.z(y)
                goals.append(z3.And(d <= core.RV(tol), -d <= core.RV(tol)))
        if not goals:
            self.trivial += 1
            return
        self._prove_sym(label, z3.And(goals))

    def prove_zero(self, label, A, **kw):
        import numpy
        A = numpy.asarray(A)
        self.prove_eq(label, A, numpy.zeros(A.shape, dtype=int) if A.dtype != object
                      else numpy.zeros(A.shape, dtype=int), **kw)

    def _nf_equal(self, zx, zy):
        """polynomial identity decided by z3's rewriter: the difference in sorted sum-of-monomials normal
        form is the numeral 0 (equivalence-preserving rewriting; bounded number of steps)"""
        import z3
        try:
            d = z3.simplify(zx - zy, som=True, sort_sums=True, max_steps=int(os.environ.get("NF_STEPS", "300000")))
        except z3.Z3Exception:
            return False
        if z3.is_rational_value(d) and d.numerator_as_long() == 0:
            return True
        # the same modulo the assumed square rules (s*s = 1 - c*c of rotations, sign^2 = 1, sqrt(x)^2 = x, ...)
        from symnum.core import ENGINE
        from symnum import poly
        if ENGINE.square_rules and poly.equal_modulo(zx, zy, ENGINE.square_rules):
            if os.environ.get("VERIF_NF_CROSSCHECK") == "1":
                # development aid: the SMT solver must not find a model of x != y under the assumptions
                from symnum import solver
                r, m, dt, _ = solver.check([zx != zy], timeout_ms=5000)
                self.records.append(dict(label="nf-crosscheck", verdict="unsat" if r != "sat" else "sat",
                                         secs=round(dt, 4), path=self.npaths, crosscheck=r))
            return True
        return False

    def unit_circle(self, c, s, note="rotation: c^2 + s^2 = 1"):
        """assume c^2 + s^2 = 1 for two symbolic reals and register the rewrite rule s^2 -> 1 - c^2"""
        if self.sym:
            from symnum.core import ENGINE, lift
            self.assume(c * c + s * s == 1, note)
            ENGINE.square_rules[lift(s).re.decl().name()] = 1 - lift(c).re * lift(c).re

    def failed_so_far(self):
        """has any assertion on this path already been refuted (sym: sat; replay: violated)?  Harnesses use
        it to stop before work that only makes sense when the cheaper assertions held."""
        if self.sym:
            return any(r.get("verdict") == "sat" for r in self.records)
        return bool(self.replay_violations)

    def fail(self, label, detail):
        """an unconditional violation on this path (e.g. an exception in the code under test)"""
        if self.sym:
            import z3
            self._prove_sym(label, z3.BoolVal(False), detail=detail)
        else:
            self.records.append(dict(label=label, verdict="violated"))
            self.replay_violations.append(dict(label=label, detail=detail))

    def _prove_sym(self, label, cond, detail=None):
        import z3
        from symnum.core import ENGINE, SymBool
        from symnum import solver
        if isinstance(cond, SymBool):
            cond = cond.z
        if cond is True or cond is False:
            cond = z3.BoolVal(cond)
        if isinstance(cond, (bool,)) or type(cond).__name__ == "bool_":
            cond = z3.BoolVal(bool(cond))
        r, m, dt, s = solver.check([z3.Not(cond)], timeout_ms=self.qtimeout)
        rec = dict(label=label, verdict=r, secs=round(dt, 4), path=self.npaths)
        if os.environ.get("DUMP_LABEL") and os.environ["DUMP_LABEL"] in label:
            with open(os.environ.get("DUMP_FILE", "/tmp/dump.smt2"), "w") as f:
                f.write(s.to_smt2())
        if detail:
            rec["detail"] = detail
        if r == "sat":
            rec["model"] = {k: str(v) for k, v in solver.model_dict(m).items()}
        if self.want_smt2 and len(self.samples) < 2 and r == "unsat" and not z3.is_false(cond):
            txt = s.to_smt2()
            if len(txt) < 6000:
                self.samples.append(dict(label=label, verdict=r, smt2=txt))
        self.records.append(rec)

    def assume_denominators_nonzero(self, note):
        """turn the recorded division obligations into stated preconditions (used where the
        property is not about finiteness and the formula has documented poles)"""
        if not self.sym:
            return
        from symnum.core import ENGINE
        obs, ENGINE.obligations = ENGINE.obligations, []
        for kind, cond, n, pc in obs:
            ENGINE.assumptions.append(cond)
            ENGINE.pinned.append(cond)
        if note not in self.notes:
            self.notes.append(note)

    # ---- exceptions as outcomes ---------------------------------------
    def check_div_obligations(self, label="div"):
        """decide the side obligations (denominator != 0, sqrt/log domain) recorded so far"""
        if not self.sym:
            return
        import z3
        from symnum.core import ENGINE
        from symnum import solver
        obs, ENGINE.obligations = ENGINE.obligations, []
        seen = set()
        for kind, cond, note, pc in obs:
            key = (kind, cond.get_id(), tuple(p.get_id() for p in pc))
            if key in seen:
                continue
            seen.add(key)
            r, m, dt, s = solver.check([z3.Not(cond)] , timeout_ms=self.qtimeout)
            rec = dict(label="%s#%s:%s" % (label, kind, " ".join(str(cond).split())[:60]), verdict=r,
                       secs=round(dt, 4), path=self.npaths, side=True)
            if r == "sat":
                rec["model"] = {k: str(v) for k, v in solver.model_dict(m).items()}
            self.records.append(rec)
            # whatever the verdict, later obligations are about the case where the value exists
            ENGINE.assume(cond, "after a side obligation has been decided it is assumed for what follows")


# ---------------------------------------------------------------------------
# running one harness instance (in a forked worker)
# ---------------------------------------------------------------------------
MAX_PATHS = 256


def run_instance_sym(h, params, qtimeout, want_smt2=True):
    import quantarhei  # noqa: must be imported before numpy is patched
    import z3
    from symnum.core import ENGINE
    from symnum import npatch, solver
    t0 = time.time()
    all_records = []
    notes, assumption_notes = [], []
    samples = []
    pending = [[]]
    npaths = 0
    twin_ok = True
    reduced_twins = 0
    trivial = 0
    nf_total = 0
    inputs = set()
    status = "ok"
    err = None
    while pending:
        prefix = pending.pop()
        if npaths >= MAX_PATHS:
            status = "path-limit"
            break
        ENGINE.reset()
        ENGINE.pinned = []
        npatch.OrthoTag.inv.clear()
        npatch.EIGH_HANDLER[0] = None
        ENGINE.prefix = prefix
        cx = Cx("sym", qtimeout=qtimeout, want_smt2=want_smt2 and not samples)
        cx.npaths = npaths
        try:
            with npatch.symbolic_numpy():
                h.fn(cx, **params)
                cx.check_div_obligations()
        except Exception as e:
            status = "error"
            err = "".join(traceback.format_exception(type(e), e, e.__traceback__))[-3000:]
            all_records += cx.records
            break
        # vacuity twin: assumptions + path condition must be satisfiable
        r, m, dt, s = solver.check([], timeout_ms=min(qtimeout, 10000), use_coi=False)
        if r == "unknown":
            # reduced twin: leave out the instantiated true facts about exp/cos/tanh/algebraic
            # constants (satisfiable by construction); check the harness preconditions, the
            # path condition and the structural stub contracts (eigh, sqrt, ...)
            keep = [a for a in ENGINE.assumptions if a.get_id() not in ENGINE.fact_ids]
            saved = ENGINE.assumptions
            ENGINE.assumptions = keep
            try:
                r, m, dt, s = solver.check([], timeout_ms=qtimeout, use_coi=False)
            finally:
                ENGINE.assumptions = saved
            if r == "sat":
                reduced_twins += 1
        if r != "sat":
            twin_ok = False
            all_records.append(dict(label="twin", verdict="twin-" + r, path=npaths))
        for rec in cx.records:
            rec["decisions"] = list(ENGINE.decisions)
        all_records += cx.records
        trivial += cx.trivial
        nf_total += cx.nf_discharged
        samples += cx.samples
        for n in cx.notes:
            if n not in notes:
                notes.append(n)
        for n in ENGINE.assumption_notes:
            if n not in assumption_notes:
                assumption_notes.append(n)
        inputs |= set(cx.inputs)
        pending += ENGINE.pending
        npaths += 1
    return dict(harness=h.name, params=params, status=status, error=err, paths=npaths,
                records=all_records, notes=notes, assumptions=assumption_notes,
                samples=samples, twin_ok=twin_ok, reduced_twins=reduced_twins, trivial=trivial, normal_form=nf_total, wall=round(time.time() - t0, 3),
                solver_s=round(sum(r.get("secs", 0) for r in all_records), 3),
                max_query_s=round(max([r.get("secs", 0) for r in all_records] or [0]), 3),
                ninputs=len(inputs))


def run_instance_replay(h, params, values):
    """plain floats on the unpatched real code"""
    import warnings
    cx = Cx("replay", values=values)
    err = None
    try:
        with warnings.catch_warnings():
            warnings.simplefilter("ignore")
            h.fn(cx, **params)
    except ReplayMismatch as e:
        err = "precondition: %s" % e
    except Exception as e:
        err = "".join(traceback.format_exception(type(e), e, e.__traceback__))[-2000:]
        # an exception of the code under test on the counterexample input also
        # counts as reproduction only if the harness turned it into cx.fail
    return dict(violations=cx.replay_violations, error=err,
                precondition_failed=cx.precondition_failed,
                nrecords=len(cx.records))


def _worker(conn, pid, name, params, mode, qtimeout, values):
    try:
        import warnings
        warnings.simplefilter("ignore")
        # the library prints progress messages; the check's stdout carries only its own report
        sys.stdout = open(os.devnull, "w")
        h = HARNESSES[(pid, name)]
        if mode == "sym":
            res = run_instance_sym(h, params, qtimeout)
        else:
            res = run_instance_replay(h, params, values)
        conn.send(res)
    except BaseException as e:  # pragma: no cover
        conn.send(dict(status="crash", error="".join(
            traceback.format_exception(type(e), e, e.__traceback__))[-3000:],
            harness=name, params=params, records=[], paths=0))
    finally:
        conn.close()


def run_pool(tasks, nproc, wall_limit):
    """tasks: list of (pid, name, params, mode, qtimeout, values, wall) -> results in order"""
    ctx = multiprocessing.get_context("fork")
    results = [None] * len(tasks)
    running = {}
    nxt = 0
    while nxt < len(tasks) or running:
        while nxt < len(tasks) and len(running) < nproc:
            t = tasks[nxt]
            pc, cc = ctx.Pipe(duplex=False)
            p = ctx.Process(target=_worker, args=(cc,) + tuple(t[:6]))
            p.start()
            cc.close()
            running[nxt] = (p, pc, time.time(), t[6] if len(t) > 6 and t[6] else wall_limit)
            nxt += 1
        done = []
        for i, (p, pc, t0, wl) in running.items():
            if pc.poll(0):
                try:
                    results[i] = pc.recv()
                except EOFError:
                    results[i] = dict(status="crash", error="worker died", records=[], paths=0,
                                      harness=tasks[i][1], params=tasks[i][2])
                p.join()
                done.append(i)
            elif not p.is_alive():
                results[i] = dict(status="crash", error="worker exited %s" % p.exitcode,
                                  records=[], paths=0, harness=tasks[i][1], params=tasks[i][2])
                done.append(i)
            elif time.time() - t0 > wl:
                p.kill()
                p.join()
                results[i] = dict(status="timeout", error="wall limit %ss" % wl, records=[],
                                  paths=0, harness=tasks[i][1], params=tasks[i][2])
                done.append(i)
        for i in done:
            running.pop(i)
        if not done:
            time.sleep(0.02)
    return results


# ---------------------------------------------------------------------------
# known findings
# ---------------------------------------------------------------------------
def load_known():
    p = os.path.join(VERIF, "known_findings.json")
    if not os.path.exists(p):
        return []
    return json.load(open(p)).get("findings", [])


def match_known(known, pid, hname, params, label):
    import fnmatch
    for k in known:
        if k.get("status") != "open":
            continue
        if k["property"] != pid:
            continue
        if not fnmatch.fnmatch(hname, k.get("harness", "*")):
            continue
        if not fnmatch.fnmatch(label, k.get("label", "*")):
            continue
        pp = k.get("params")
        if pp and any(params.get(a) != b for a, b in pp.items()):
            continue
        return k
    return None


# ---------------------------------------------------------------------------
# driver
# ---------------------------------------------------------------------------
def file_hash(path):
    try:
        return hashlib.sha1(open(path, "rb").read()).hexdigest()[:12]
    except OSError:
        return None


def run_property(pid, tier, replay_path=None, only=None, nproc=None):
    t_start = time.time()
    seed = int(os.environ.get("VERIF_SEED", "0") or 0)
    nproc = nproc or int(os.environ.get("VERIF_NPROC", "16"))
    hs = [h for (p, n), h in HARNESSES.items() if p == pid and (only is None or n in only)]
    if replay_path:
        return do_replay_file(pid, replay_path)
    qtimeout = 40000 if tier == "quick" else 120000
    wall = 300 if tier == "quick" else 1500
    tasks = []
    for h in hs:
        for params in (h.quick if tier == "quick" else h.thorough):
            tasks.append((pid, h.name, params, "sym", qtimeout, None, h.timeout))
    results = run_pool(tasks, nproc, wall)

    known = load_known()
    obligations = discharged = nsat = nunknown = 0
    trivial_total = 0
    nf_grand = 0
    inconclusive = []
    violations = []
    from vf import xhair as _xh
    xh_results = _xh.run_all(pid, tier, nproc) if (only is None and _xh.XHAIR.get(pid)) else []
    known_hits = []
    samples = []
    assumptions = []
    distinct = set()
    total_paths = 0
    solver_s = 0.0
    per_harness = []
    replay_tasks = []
    for t, res in zip(tasks, results):
        hname, params = t[1], t[2]
        total_paths += res.get("paths", 0)
        solver_s += res.get("solver_s", 0.0)
        hsum = dict(harness=hname, params=params, status=res.get("status"), paths=res.get("paths"),
                    wall_s=res.get("wall"), max_query_s=res.get("max_query_s"),
                    obligations=0, unsat=0, sat=0, unknown=0)
        if res.get("status") != "ok":
            inconclusive.append("%s%s: %s %s" % (hname, params, res.get("status"),
                                                  (res.get("error") or "")[-600:]))
        if not res.get("twin_ok", True):
            inconclusive.append("%s%s: vacuity twin not satisfiable" % (hname, params))
        for n in res.get("assumptions", []) + res.get("notes", []):
            if n not in assumptions:
                assumptions.append(n)
        for smp in res.get("samples", []):
            if len(samples) < 3:
                samples.append(dict(harness=hname, params=params, **smp))
        sat_seen = set()
        nnf = res.get("normal_form", 0)
        nf_grand += nnf
        ntriv = res.get("trivial", 0) + nnf
        obligations += ntriv
        discharged += ntriv
        trivial_total += ntriv
        hsum["obligations"] += ntriv
        hsum["unsat"] += ntriv
        for rec in res.get("records", []):
            if rec["label"] == "twin":
                continue
            obligations += 1
            hsum["obligations"] += 1
            v = rec["verdict"]
            if v == "unsat":
                discharged += 1
                hsum["unsat"] += 1
                if not rec.get("trivial"):
                    distinct.add((hname, json.dumps(params, sort_keys=True), rec["label"],
                                  tuple(rec.get("decisions", []))))
            elif v == "sat":
                nsat += 1
                hsum["sat"] += 1
                # one replay per (harness instance, label family); at most 6 unexplained and 2
                # known-finding families per instance are replayed (the rest of an instance's
                # counterexamples add nothing to the verdict: one confirmed violation fails the check)
                fam = family(rec["label"])
                isk = match_known(known, pid, hname, params, fam) is not None
                cnt = sum(1 for f, k_ in sat_seen if k_ == isk)
                if (fam, isk) not in sat_seen and cnt < (2 if isk else 6):
                    sat_seen.add((fam, isk))
                    replay_tasks.append((pid, hname, params, "replay", 0, rec.get("model", {}),
                                         None, rec))
            else:
                nunknown += 1
                hsum["unknown"] += 1
                inconclusive.append("%s%s: %s -> %s" % (hname, params, rec["label"], v))
        per_harness.append(hsum)

    # ---- replay every distinct counterexample on the real, unpatched code
    rres = run_pool([t[:7] for t in replay_tasks], nproc, 300) if replay_tasks else []
    nonrepro = []
    os.makedirs(os.path.join(VERIF, "replays"), exist_ok=True)
    for t, rr in zip(replay_tasks, rres):
        _, hname, params, _, _, model, _, rec = t
        label = rec["label"]
        fam = family(label)
        reproduced = [v for v in (rr.get("violations") or [])]
        same = [v for v in reproduced if family(v["label"]) == fam]
        if same:
            k = match_known(known, pid, hname, params, fam)
            payload = dict(property=pid, harness=hname, params=params, label=label,
                           values=model, replayed=same[:3])
            hh = hashlib.sha1(json.dumps([hname, params, fam], sort_keys=True).encode()
                              ).hexdigest()[:10]
            path = os.path.join(VERIF, "replays", "%s-%s.json" % (pid, hh))
            with open(path, "w") as f:
                json.dump(payload, f, indent=1)
            if k:
                known_hits.append((k, hname, params, label))
            else:
                violations.append((path, hname, params, label, same[0]))
        else:
            nonrepro.append((hname, json.dumps(params, sort_keys=True),
                             "%s%s: model for %s did not reproduce on the real code (%s)" % (
                hname, params, label, (rr.get("error") or "no violation at this label")[-300:])))
    confirmed_inst = {(hn, json.dumps(pp, sort_keys=True)) for _, hn, pp, _, _ in violations} | \
                     {(hn, json.dumps(pp, sort_keys=True)) for _, hn, pp, _ in known_hits}
    secondary = []
    for hn, pj, msg in nonrepro:
        if (hn, pj) in confirmed_inst:
            secondary.append(msg)      # consequence of a confirmed violation in the same run
        else:
            inconclusive.append(msg)

    # ---- CrossHair conditions
    xh_summary = []
    for r in xh_results:
        xh_summary.append({k: r.get(k) for k in ("file", "func", "verdict", "detail", "call", "env",
                                                 "secs", "twin", "reproduced")})
        solver_s += r.get("secs", 0.0)
        if r["twin"]:
            if r["verdict"] != "sat":
                inconclusive.append("crosshair twin %s not reachable: %s" % (r["func"], r.get("detail")))
            continue
        obligations += 1
        if r["verdict"] == "unsat":
            discharged += 1
            distinct.add(("xh", r["func"], json.dumps(r["env"], sort_keys=True)))
        elif r["verdict"] == "sat":
            nsat += 1
            if r.get("reproduced"):
                k = match_known(known, pid, "xh:" + r["func"], r["env"], r.get("call", ""))
                os.makedirs(os.path.join(VERIF, "replays"), exist_ok=True)
                path = os.path.join(VERIF, "replays", "%s-xh-%s.json" % (pid, r["func"]))
                with open(path, "w") as f:
                    json.dump(dict(property=pid, kind="crosshair", file=r["file"], func=r["func"],
                                   args=r["args"], env=r["env"], replay_output=r["replay_output"]),
                              f, indent=1)
                if k:
                    known_hits.append((k, "xh:" + r["func"], r["env"], r.get("call", "")))
                else:
                    violations.append((path, "xh:" + r["func"], r["env"], r.get("call", ""),
                                       dict(detail=r.get("detail"), replay=r["replay_output"])))
            else:
                inconclusive.append("crosshair counterexample %s did not reproduce: %s" % (
                    r.get("call"), r.get("replay_output")))
        else:
            nunknown += 1
            inconclusive.append("crosshair %s: %s" % (r["func"], r.get("detail")))
    if xh_results and len(samples) < 3:
        samples.append(dict(kind="crosshair condition", **{k: xh_results[0].get(k) for k in
                                                           ("file", "func", "verdict", "detail", "env")}))

    wall_s = time.time() - t_start
    # ---- evidence
    funcs = sorted({f for h in hs for f in h.functions} |
                   {f for sp in _xh.XHAIR.get(pid, []) for f in sp["functions"]})
    files = {}
    for f in funcs:
        path = f.split(":")[0]
        fp = os.path.join(REPO, path)
        files[path] = file_hash(fp)
    ev = dict(
        property_id=pid, tier=tier, seed=seed, level="other",
        coverage=dict(
            explanation=("Bounded symbolic execution of the real functions of %s (imported from the "
                         "current working tree, numpy allocation/LAPACK/FFT/spline replaced by "
                         "contract stubs); each obligation is the validity of an assertion over all "
                         "values of the symbolic inputs within the stated bounds, decided by z3 "
                         "(unsat of the negation). sat models are replayed with floats on the "
                         "unpatched code before anything is reported." % REPO),
            obligations=obligations, discharged=discharged,
            evaluations=obligations, distinct_nontrivial=len(distinct),
            rule=("one evaluation = one assertion instance on one execution path of one harness instance. It "
                  "is discharged in one of three ways, counted separately: `syntactically_identical` (both "
                  "sides are the same term), `polynomial_normal_form` (the difference reduces to the zero "
                  "polynomial under z3's rewriter or modulo the square rules the engine has assumed: "
                  "s^2 = 1 - c^2 of rotation parameters, sign^2 = 1, sqrt(x)^2 = x, Sin^2 = 1 - Cos^2), or an "
                  "SMT query (all the rest; `distinct_nontrivial` counts distinct (harness, bound "
                  "parameters, assertion label, path) among them)"),
            samples=samples if samples else [dict(note="no non-trivial query sample captured")],
            sat=nsat, unknown=nunknown, paths=total_paths, solver_s=round(solver_s, 3),
            syntactically_identical=trivial_total - nf_grand, polynomial_normal_form=nf_grand,
            functions_encoded=funcs, source_hashes=files,
            bounds={h.name: dict(bound=h.bound, outside=h.out,
                                 instances=(h.quick if tier == "quick" else h.thorough))
                    for h in hs},
            harnesses=per_harness,
            crosshair=xh_summary,
            crosshair_bounds=[dict(file=sp["file"], bound=sp["bound"], outside=sp["out"],
                                   env=(sp["env_quick"] if tier == "quick" else sp["env_thorough"]),
                                   per_condition_timeout=(sp["t_quick"] if tier == "quick" else sp["t_thorough"]))
                              for sp in _xh.XHAIR.get(pid, [])],
            known_findings_hit=[dict(id=k["id"], harness=hn, params=pp, label=lb)
                                for k, hn, pp, lb in known_hits],
            inconclusive=inconclusive[:40],
            secondary_models_not_reproduced=secondary[:20],
            checker_cmd="./check %s --tier %s" % (pid, tier),
            trusted_base=["z3 5.1.0 (QF_NRA/UFNRA decision)", "numpy object-array dispatch",
                          "stub contracts listed under assumptions", "reals for floats"],
            exhaustive=False,
        ),
        assumptions=assumptions,
        wall_s=round(wall_s, 2),
        violations=len(violations),
    )
    evdir = os.environ.get("VERIF_EVIDENCE_DIR") or os.path.join(VERIF, "evidence")
    os.makedirs(evdir, exist_ok=True)
    with open(os.path.join(evdir, pid + ".json"), "w") as f:
        json.dump(ev, f, indent=1, default=str)

    # ---- report
    print("%s tier=%s harness-instances=%d paths=%d obligations=%d discharged=%d sat=%d unknown=%d "
          "solver=%.1fs wall=%.1fs" % (pid, tier, len(tasks), total_paths, obligations, discharged,
                                       nsat, nunknown, solver_s, wall_s))
    seen_k = set()
    for k, hn, pp, lb in known_hits:
        if k["id"] not in seen_k:
            seen_k.add(k["id"])
            print("KNOWN-FINDING: property=%s %s [%s]" % (pid, k["what"], k["id"]))
    for path, hn, pp, lb, v in violations:
        print("VIOLATION property=%s replay=%s" % (pid, path))
        print("  harness=%s params=%s label=%s detail=%s" % (hn, pp, lb, json.dumps(v)[:300]))
    if violations:
        return 1
    if inconclusive:
        for m in inconclusive[:20]:
            print("INCONCLUSIVE:", m)
        return 3
    return 0


def do_replay_file(pid, path):
    payload = json.load(open(path))
    if payload.get("kind") == "crosshair":
        from vf import xhair as _xh
        ok, last = _xh.replay_call(os.path.join(VERIF, payload["file"]), payload["func"],
                                   payload["args"], payload["env"])
        print(json.dumps(dict(reproduced=ok, output=last)))
        if ok:
            print("VIOLATION property=%s replay=%s" % (pid, path))
            return 1
        return 0
    h = HARNESSES[(pid, payload["harness"])]
    rr = run_pool([(pid, h.name, payload["params"], "replay", 0, payload["values"], None)], 1, 600)[0]
    fam = family(payload["label"])
    same = [v for v in rr.get("violations", []) if family(v["label"]) == fam]
    print(json.dumps(dict(reproduced=bool(same), violations=same[:3], error=rr.get("error")),
                     indent=1))
    if same:
        print("VIOLATION property=%s replay=%s" % (pid, path))
        return 1
    return 0
