"""CrossHair front end: each condition is a bool function with `post: _` in a
harness file under /verif/xh that calls the real code; its `<name>_twin` has
`post: not _` and must produce a counterexample (reachability witness)."""
import os
import re
import ast
import sys
import json
import time
import subprocess

VERIF = os.path.dirname(os.path.dirname(os.path.abspath(__file__)))

XHAIR = {}   # pid -> list of specs


def xhair(pid, file, conditions, env_quick=None, env_thorough=None, t_quick=60, t_thorough=300,
          functions=(), bound="", out=""):
    XHAIR.setdefault(pid, []).append(dict(
        file=file, conditions=list(conditions), env_quick=env_quick or {},
        env_thorough=env_thorough or {}, t_quick=t_quick, t_thorough=t_thorough,
        functions=list(functions), bound=bound, out=out))


def _def_lines(path):
    tree = ast.parse(open(path).read())
    return {n.name: n.lineno for n in tree.body if isinstance(n, ast.FunctionDef)}


_CEX = re.compile(r"error: (.*?) when calling (\w+)\((.*)\)\s*$")


def run_condition(file, func, line, env, tmo):
    e = dict(os.environ)
    e.update({k: str(v) for k, v in env.items()})
    cmd = [sys.executable, "-W", "ignore", "-m", "crosshair", "check", "--report_all",
           "--per_condition_timeout", str(tmo), "--per_path_timeout", str(max(10, tmo // 4)),
           "%s:%d" % (file, line + 1)]
    t0 = time.time()
    try:
        p = subprocess.run(cmd, capture_output=True, text=True, env=e, cwd=VERIF, timeout=tmo * 2 + 60)
        out = p.stdout + p.stderr
    except subprocess.TimeoutExpired:
        return dict(verdict="unknown", detail="crosshair wall timeout", secs=time.time() - t0)
    dt = time.time() - t0
    lines = [l for l in out.splitlines() if file.split("/")[-1] in l and
             (": info:" in l or ": error:" in l)]
    for l in lines:
        if "Confirmed over all paths" in l:
            return dict(verdict="unsat", detail=l.split(": info: ")[-1], secs=dt)
    for l in lines:
        m = _CEX.search(re.sub(r"\s*\(which returns .*\)\s*$", "", l))
        if m:
            return dict(verdict="sat", detail=m.group(1), call="%s(%s)" % (m.group(2), m.group(3)),
                        args=m.group(3), secs=dt)
    for l in lines:
        if "Not confirmed" in l or "Unable to meet precondition" in l:
            return dict(verdict="unknown", detail=l.split(": info: ")[-1], secs=dt)
    return dict(verdict="unknown", detail="unparsed crosshair output: " + out[-400:], secs=dt)


def replay_call(file, func, args, env):
    """plain python, real code: does the condition function return False / raise?"""
    mod = os.path.relpath(file, VERIF)[:-3].replace("/", ".")
    code = ("import warnings; warnings.simplefilter('ignore')\n"
            "import %s as m\n"
            "try:\n r = m.%s(%s)\n print('RESULT', repr(r))\n"
            "except Exception as e:\n print('RAISED', type(e).__name__, e)\n" % (mod, func, args))
    e = dict(os.environ)
    e.update({k: str(v) for k, v in env.items()})
    p = subprocess.run([sys.executable, "-W", "ignore", "-c", code], capture_output=True, text=True,
                       env=e, cwd=VERIF, timeout=300)
    out = p.stdout.strip().splitlines()
    last = out[-1] if out else p.stderr[-300:]
    reproduced = last.startswith("RAISED") or last == "RESULT False"
    return reproduced, last


def run_all(pid, tier, nproc=16):
    """returns list of result dicts (one per condition incl. twins)"""
    from concurrent.futures import ThreadPoolExecutor
    jobs = []
    for spec in XHAIR.get(pid, []):
        path = os.path.join(VERIF, spec["file"])
        lines = _def_lines(path)
        env = spec["env_quick"] if tier == "quick" else spec["env_thorough"]
        tmo = spec["t_quick"] if tier == "quick" else spec["t_thorough"]
        for c in spec["conditions"]:
            for nm, twin in ((c, False), (c + "_twin", True)):
                jobs.append((spec, path, nm, lines[nm], env, tmo if not twin else min(tmo, 60), twin))
    with ThreadPoolExecutor(max_workers=nproc) as ex:
        futs = [ex.submit(run_condition, j[1], j[2], j[3], j[4], j[5]) for j in jobs]
        res = [f.result() for f in futs]
    out = []
    for j, r in zip(jobs, res):
        spec, path, nm, line, env, tmo, twin = j
        r = dict(r, file=spec["file"], func=nm, env=env, twin=twin, timeout=tmo)
        if r["verdict"] == "sat" and not twin:
            ok, last = replay_call(path, nm, r["args"], env)
            r["reproduced"] = ok
            r["replay_output"] = last
        out.append(r)
    return out
