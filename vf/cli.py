import os
import sys
import argparse
import importlib
import warnings

warnings.simplefilter("ignore")


def main():
    ap = argparse.ArgumentParser()
    ap.add_argument("pid")
    ap.add_argument("--tier", default=os.environ.get("VERIF_TIER", "quick"))
    ap.add_argument("--replay", default=None)
    ap.add_argument("--only", default=None, help="comma separated harness names")
    ap.add_argument("--nproc", type=int, default=None)
    a = ap.parse_args()
    from vf import framework
    sys.path.insert(0, framework.REPO)
    import quantarhei  # noqa: imported once in the parent; workers are forked
    import symnum      # noqa
    importlib.import_module("harness.%s" % a.pid)
    only = a.only.split(",") if a.only else None
    rc = framework.run_property(a.pid, a.tier, a.replay, only, a.nproc)
    sys.exit(rc)


if __name__ == "__main__":
    main()
