"""Shared builders for harnesses: concrete quantarhei objects (benign numbers)
whose numerical storage is then overwritten with symbolic / replayed values."""
import numpy


def build_sbi(cx, N, nb, Nt=4, dt=1.0, T=300.0):
    """Hamiltonian (N levels), SystemBathInteraction with nb baths on a time axis of
    Nt points; returns (ham, sbi, time).  Built with real numpy."""
    import quantarhei as qr
    from quantarhei.qm.corfunctions import CorrelationFunctionMatrix
    from quantarhei.qm import Operator, SystemBathInteraction
    with cx.concrete():
        time = qr.TimeAxis(0.0, Nt, dt)
        with qr.energy_units("1/cm"):
            params = dict(ftype="OverdampedBrownian", reorg=30.0, T=T, cortime=100.0)
            cfs = [qr.CorrelationFunction(time, params) for _ in range(nb)]
        cm = CorrelationFunctionMatrix(time, nb, nb)
        for i, cf in enumerate(cfs):
            cm.set_correlation_function(cf, [(i, i)], i + 1) if nb > 1 else \
                cm.set_correlation_function(cf, [(0, 0)])
        ops = []
        for i in range(nb):
            K = numpy.zeros((N, N))
            K[min(i + (1 if N > nb else 0), N - 1), min(i + (1 if N > nb else 0), N - 1)] = 1.0
            ops.append(Operator(data=K))
        sbi = SystemBathInteraction(ops, cm)
        h = numpy.diag(numpy.arange(N, dtype=float) * 0.01)
        ham = qr.Hamiltonian(data=h)
    return ham, sbi, time


def set_symmetric_hamiltonian(cx, ham, name="H"):
    N = ham.dim
    H = cx.real_symmetric(name, N)
    ham._data = H
    return H


def set_symmetric_K(cx, sbi, N, name="K"):
    nb = sbi.N
    KK = numpy.empty((nb, N, N), dtype=object if cx.sym else float)
    for m in range(nb):
        KK[m] = cx.real_symmetric("%s%d" % (name, m), N)
    sbi.KK = KK
    return KK


def trace_and_herm(cx, label, RR):
    """sum_a R[a,a,c,d] = 0 ; conj R[a,b,c,d] = R[b,a,d,c]   (last four indices)"""
    if RR.ndim == 5:
        for t in range(RR.shape[0]):
            trace_and_herm(cx, "%s.t%d" % (label, t), RR[t])
        return
    N = RR.shape[0]
    tr = numpy.einsum("aacd->cd", RR)
    cx.prove_eq(label + "/trace", tr, numpy.zeros((N, N), dtype=int))
    cx.prove_eq(label + "/herm", numpy.conj(RR), numpy.transpose(RR, (1, 0, 3, 2)))


def secular_shape(cx, label, Rsec, Rorig):
    """population-transfer and coherence-decay elements unchanged, every other element zero"""
    if Rsec.ndim == 5:
        for t in range(Rsec.shape[0]):
            secular_shape(cx, "%s.t%d" % (label, t), Rsec[t], Rorig[t])
        return
    N = Rsec.shape[0]
    keep = numpy.zeros((N, N, N, N), dtype=bool)
    for a in range(N):
        for b in range(N):
            keep[a, a, b, b] = True
            keep[a, b, a, b] = True
    cx.prove_eq(label + "/kept", Rsec[keep], Rorig[keep])
    cx.prove_eq(label + "/zeroed", Rsec[~keep], numpy.zeros(int((~keep).sum()), dtype=int))


def tensor_with_identities(cx, N, name="R"):
    """arbitrary 4-index tensor satisfying the C01 identities by construction:
    Hermiticity by sharing terms, tracelessness by solving for R[N-1,N-1,c,d]"""
    R = numpy.empty((N, N, N, N), dtype=object if cx.sym else complex)
    done = {}
    for a in range(N):
        for b in range(N):
            for c in range(N):
                for d in range(N):
                    key = (a, b, c, d)
                    mirror = (b, a, d, c)
                    if key in done:
                        continue
                    if key == mirror:
                        v = cx.real("%s_%d%d%d%d" % (name, a, b, c, d))
                        v = v + 0j if not cx.sym else v
                        R[key] = v
                        done[key] = True
                    else:
                        v = cx.cplx("%s_%d%d%d%d" % (name, a, b, c, d))
                        R[key] = v
                        R[mirror] = v.conjugate()
                        done[key] = done[mirror] = True
    # tracelessness: fix the (N-1,N-1,c,d) elements; consistent with Hermiticity because the
    # sum over a<N-1 of R[a,a,c,d] is itself Hermitian-symmetric under (c,d)->(d,c)
    for c in range(N):
        for d in range(N):
            acc = 0
            for a in range(N - 1):
                acc = acc + R[a, a, c, d]
            R[N - 1, N - 1, c, d] = -acc
    return R


def build_aggregate(cx, nmol=2, mult=1, with_bath=True, coupling=0.01, energies=None, Nt=8, reorgs=None,
                    order=None):
    """concrete Aggregate of two-level molecules (built with the real numpy)"""
    import quantarhei as qr
    with cx.concrete():
        mols = []
        time = qr.TimeAxis(0.0, Nt, 1.0)
        if with_bath:
            params = dict(ftype="OverdampedBrownian", reorg=20, cortime=100, T=300)
            with qr.energy_units("1/cm"):
                fc = qr.CorrelationFunction(time, params)
        for i in range(nmol):
            e = 1.0 + 0.1 * i if energies is None else energies[i]
            m = qr.Molecule(name="M%d" % i, elenergies=[0.0, e])
            m.position = [10.0 * i, 0.0, 0.0]
            m.set_dipole(0, 1, [1.0, 0.3 * i, 0.0])
            if with_bath:
                if reorgs is not None:
                    with qr.energy_units("1/cm"):
                        fci = qr.CorrelationFunction(time, dict(ftype="OverdampedBrownian", reorg=reorgs[i],
                                                                cortime=100 - 20 * i, T=300))
                    m.set_transition_environment((0, 1), fci)
                else:
                    m.set_transition_environment((0, 1), fc)
            mols.append(m)
        if order is not None:
            mols = [mols[i] for i in order]
        agg = qr.Aggregate(name="A", molecules=mols)
        for i in range(nmol):
            for j in range(i + 1, nmol):
                agg.set_resonance_coupling(i, j, coupling / (j - i))
        agg.build(mult=mult)
    return agg


def spectral_hamiltonian(cx, n, block=None, tag="H", handler_kw=None, planes=None, w_values=None):
    """real symmetric n x n matrix given by its eigen-decomposition H = S diag(w) S^T
    (all such matrices, by the spectral theorem).  Symbolic mode: registered with the eigh
    stub.  Replay mode: rebuilt with floats from the model's rotation parameters."""
    blocks = block if block is not None else [list(range(n))]
    if cx.sym:
        from symnum import linalg, npatch
        h = npatch.EIGH_HANDLER[0]
        if h is None:
            h = linalg.use_eigh(**(handler_kw or dict(eigen_equation=True, block=block, signs=False)))
        H, w, S = linalg.spectral_symmetric(h, n, block=block, tag=tag,
                                            planes=[tuple(p) for p in planes] if planes else None,
                                            w_values=w_values)
        return H, w, S
    S = numpy.eye(n)
    k = 0
    for blk in blocks:
        for ii in range(len(blk)):
            for jj in range(ii + 1, len(blk)):
                i, j = blk[ii], blk[jj]
                if planes and [i, j] not in [list(p) for p in planes]:
                    continue
                c, s_ = cx.real("%s.S.c%d" % (tag, k), 0.3, 0.9), cx.real("%s.S.s%d" % (tag, k), 0.3, 0.9)
                nrm = (c * c + s_ * s_) ** 0.5
                c, s_ = c / nrm, s_ / nrm
                G = numpy.eye(n)
                G[i, i] = G[j, j] = c
                G[i, j], G[j, i] = -s_, s_
                S = S @ G
                k += 1
    if w_values is not None:
        w2 = numpy.array([float(x) for x in w_values])
    else:
        w = numpy.array([cx.real("%s.w%d" % (tag, i), 0.0, 1.0) for i in range(n)])
        order = [i for blk in blocks for i in blk]
        ws = numpy.sort(w)
        w2 = w.copy()
        for pos, i in enumerate(order):
            w2[i] = ws[pos]
    H = (S * w2[None, :]) @ S.T
    H = (H + H.T) / 2
    return H, w2, S


def spectral_hermitian(cx, n=2, tag="W"):
    """complex Hermitian 2x2 matrix given by its eigen-decomposition W = S diag(w) S^+ with
    S = G(c,s) diag(u_0,u_1), c^2+s^2=1, |u_i|=1 (all of U(2) up to a global phase)"""
    assert n == 2
    if cx.sym:
        from symnum import linalg, npatch
        h = linalg.use_eigh(eigen_equation=True, signs=False, unitary=True)
        return linalg.spectral_symmetric(h, n, tag=tag)
    c, s_ = cx.real("%s.S.c0" % tag, 0.3, 0.9), cx.real("%s.S.s0" % tag, 0.3, 0.9)
    nrm = (c * c + s_ * s_) ** 0.5
    c, s_ = c / nrm, s_ / nrm
    S = numpy.array([[c, -s_], [s_, c]], dtype=complex)

    v = cx.cplx("%s.S.v1" % tag)
    v = v / abs(v) if abs(v) > 0 else 1.0
    S[1, :] *= v
    w = numpy.sort(numpy.array([cx.real("%s.w%d" % (tag, i), 0.0, 1.0) for i in range(2)]))
    W = (S * w[None, :]) @ numpy.conj(S.T)
    W = (W + numpy.conj(W.T)) / 2
    return W, w, S


def grid_phase(cx, label, w, t, M):
    """exp(i*w*t).  Symbolic mode: the solver proves the phase lemma
    w*t == 2*pi*p/M for the integer p guessed numerically, then the exact M-th root
    of unity is used; a lemma that fails means the returned axis is not the conjugate
    grid, which is itself a violation (replayed numerically)."""
    if not cx.sym:
        return numpy.exp(1j * w * t)
    from symnum import core, fftstub
    from symnum.npatch import sym_pi, PI_FLOAT
    ph = core.lift(w) * core.lift(t)
    val = core.evalf(ph, {"pi": PI_FLOAT}, default=1.0)
    p = int(round(val * M / (2 * PI_FLOAT)))
    cx.prove("%s#phase" % label, ph == 2 * sym_pi() * core.lift(p) / M)
    return fftstub.root_of_unity(p, M)
