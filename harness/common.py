"""Shared builders for harnesses: concrete quantarhei objects (benign numbers)
whose numerical storage is then overwritten with symbolic / replayed values."""
import numpy


def build_sbi(cx, N, nb, Nt=4, dt=1.0, T=300.0):
    """Hamiltonian (N levels), SystemBathInteraction with nb baths on a time axis of
    Nt points; returns (ham, sbi, time).  Built with real numpy."""
    import quantarhei as qr
    from quantarhei.qm.corfunctions import CorrelationFunctionMatrix
    from quantarhei.qm import Operator, SystemBathInteraction
    with cx.concrete():
        time = qr.TimeAxis(0.0, Nt, dt)
        with qr.energy_units("1/cm"):
            params = dict(ftype="OverdampedBrownian", reorg=30.0, T=T, cortime=100.0)
            cfs = [qr.CorrelationFunction(time, params) for _ in range(nb)]
        cm = CorrelationFunctionMatrix(time, nb, nb)
        for i, cf in enumerate(cfs):
            cm.set_correlation_function(cf, [(i, i)], i + 1) if nb > 1 else \
                cm.set_correlation_function(cf, [(0, 0)])
        ops = []
        for i in range(nb):
            K = numpy.zeros((N, N))
            K[min(i + (1 if N > nb else 0), N - 1), min(i + (1 if N > nb else 0), N - 1)] = 1.0
            ops.append(Operator(data=K))
        sbi = SystemBathInteraction(ops, cm)
        h = numpy.diag(numpy.arange(N, dtype=float) * 0.01)
        ham = qr.Hamiltonian(data=h)
    return ham, sbi, time


def set_symmetric_hamiltonian(cx, ham, name="H"):
    N = ham.dim
    H = cx.real_symmetric(name, N)
    ham._data = H
    return H


def set_symmetric_K(cx, sbi, N, name="K"):
    nb = sbi.N
    KK = numpy.empty((nb, N, N), dtype=object if cx.sym else float)
    for m in range(nb):
        KK[m] = cx.real_symmetric("%s%d" % (name, m), N)
    sbi.KK = KK
    return KK


def trace_and_herm(cx, label, RR):
    """sum_a R[a,a,c,d] = 0 ; conj R[a,b,c,d] = R[b,a,d,c]   (last four indices)"""
    if RR.ndim == 5:
        for t in range(RR.shape[0]):
            trace_and_herm(cx, "%s.t%d" % (label, t), RR[t])
        return
    N = RR.shape[0]
    tr = numpy.einsum("aacd->cd", RR)
    cx.prove_eq(label + "/trace", tr, numpy.zeros((N, N), dtype=int))
    cx.prove_eq(label + "/herm", numpy.conj(RR), numpy.transpose(RR, (1, 0, 3, 2)))


def secular_shape(cx, label, Rsec, Rorig):
    """population-transfer and coherence-decay elements unchanged, every other element zero"""
    if Rsec.ndim == 5:
        for t in range(Rsec.shape[0]):
            secular_shape(cx, "%s.t%d" % (label, t), Rsec[t], Rorig[t])
        return
    N = Rsec.shape[0]
    keep = numpy.zeros((N, N, N, N), dtype=bool)
    for a in range(N):
        for b in range(N):
            keep[a, a, b, b] = True
            keep[a, b, a, b] = True
    cx.prove_eq(label + "/kept", Rsec[keep], Rorig[keep])
    cx.prove_eq(label + "/zeroed", Rsec[~keep], numpy.zeros(int((~keep).sum()), dtype=int))


def tensor_with_identities(cx, N, name="R"):
    """arbitrary 4-index tensor satisfying the C01 identities by construction:
    Hermiticity by sharing terms, tracelessness by solving for R[N-1,N-1,c,d]"""
    R = numpy.empty((N, N, N, N), dtype=object if cx.sym else complex)
    done = {}
    for a in range(N):
        for b in range(N):
            for c in range(N):
                for d in range(N):
                    key = (a, b, c, d)
                    mirror = (b, a, d, c)
                    if key in done:
                        continue
                    if key == mirror:
                        v = cx.real("%s_%d%d%d%d" % (name, a, b, c, d))
                        v = v + 0j if not cx.sym else v
                        R[key] = v
                        done[key] = True
                    else:
                        v = cx.cplx("%s_%d%d%d%d" % (name, a, b, c, d))
                        R[key] = v
                        R[mirror] = v.conjugate()
                        done[key] = done[mirror] = True
    # tracelessness: fix the (N-1,N-1,c,d) elements; consistent with Hermiticity because the
    # sum over a<N-1 of R[a,a,c,d] is itself Hermitian-symmetric under (c,d)->(d,c)
    for c in range(N):
        for d in range(N):
            acc = 0
            for a in range(N - 1):
                acc = acc + R[a, a, c, d]
            R[N - 1, N - 1, c, d] = -acc
    return R
