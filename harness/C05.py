"""C05 Energy-units management is transparent and contexts restore units."""
import contextlib
import numpy
from vf.framework import harness

F_M = "quantarhei/core/managers.py"
F_U = "quantarhei/core/units.py"
F_T = "quantarhei/utils/types.py"

EUNITS = ["int", "1/fs", "1/cm", "THz", "eV", "meV", "J", "SI", "nm", "a.u.", "Ha"]
LUNITS = ["int", "A", "Bohr", "a.u.", "nm", "m", "SI"]


def efac(u):
    from quantarhei.core.units import conversion_facs_energy
    return conversion_facs_energy[u]


def to_internal(v, u):
    """exact conversion of a non-zero value v given in units u to internal units, written from
    the documented rule: E_int = v*f(u); for wavelengths E_int = (1/v)/f(nm)"""
    if u == "nm":
        return (1.0 / v) / efac(u)
    return v * efac(u)


def from_internal(e, u):
    if u == "nm":
        return (1.0 / e) / efac(u)
    return e / efac(u)


@harness("C05", "manager_conversion",
         quick=[dict(u1=u) for u in EUNITS], thorough=[dict(u1=u) for u in EUNITS],
         functions=[F_M + ":Manager.convert_energy_2_internal_u", F_M + ":Manager.convert_energy_2_current_u",
                    F_M + ":energy_units.__enter__", F_M + ":energy_units.__exit__", F_U + ":convert",
                    F_U + ":in_current_units"],
         bound="all 11x11 ordered pairs of energy units; scalar and array values, symbolic non-zero reals",
         out="zero wavelength/energy in nm units (documented special case: zero stays zero) is covered by the "
             "array branch only for concrete zeros")
def manager_conversion(cx, u1):
    import quantarhei as qr
    from quantarhei.core.managers import Manager
    from quantarhei.core.units import convert, in_current_units
    m = Manager()
    v = cx.real("v", 0.5, 2.0)
    cx.assume(v != 0, "value != 0 (a zero in nm units is the documented special case)")
    arr = cx.real_array("a", 2)
    for i in range(2):
        cx.assume(arr[i] != 0)
    before = m.get_current_units("energy")
    for u2 in EUNITS:
        with qr.energy_units(u1):
            e = m.convert_energy_2_internal_u(v)
            ea = m.convert_energy_2_internal_u(arr)
        cx.check_div_obligations("finite")
        cx.prove_eq("internal[%s]" % u2, e, to_internal(v, u1), tol=1e-9)
        with qr.energy_units(u2):
            w = m.convert_energy_2_current_u(e)
            wa = m.convert_energy_2_current_u(ea)
        cx.check_div_obligations("finite")
        ref = from_internal(to_internal(v, u1), u2)
        cx.prove_eq("pair[%s]" % u2, w, ref, tol=1e-9)
        for i in range(2):
            cx.prove_eq("pair_array[%s]" % u2, wa[i], from_internal(to_internal(arr[i], u1), u2), tol=1e-9)
        cx.prove_eq("convert()[%s]" % u2, convert(v, u1, u2), ref, tol=1e-9)
        with qr.energy_units(u2):
            cx.prove_eq("in_current_units[%s]" % u2, in_current_units(v, u1), ref, tol=1e-9)
        cx.check_div_obligations("finite")
        cx.prove("restored[%s]" % u2, m.get_current_units("energy") == before)
    # same unit: identity
    with qr.energy_units(u1):
        cx.prove_eq("roundtrip_same_unit", m.convert_energy_2_current_u(m.convert_energy_2_internal_u(v)), v,
                    tol=1e-9)


@harness("C05", "length_conversion",
         quick=[dict(u1=u) for u in LUNITS], thorough=[dict(u1=u) for u in LUNITS],
         functions=[F_M + ":Manager.convert_length_2_internal_u", F_M + ":Manager.convert_length_2_current_u",
                    F_M + ":length_units.__enter__", F_M + ":length_units.__exit__"],
         bound="all 7x7 ordered pairs of length units; symbolic value", out="")
def length_conversion(cx, u1):
    import quantarhei as qr
    from quantarhei.core.managers import Manager, length_units
    from quantarhei.core.units import conversion_facs_length as fl
    m = Manager()
    v = cx.real("v", 0.5, 2.0)
    before = m.get_current_units("length")
    for u2 in LUNITS:
        with length_units(u1):
            x = m.convert_length_2_internal_u(v)
        with length_units(u2):
            w = m.convert_length_2_current_u(x)
        cx.prove_eq("pair[%s]" % u2, w, v * fl[u1] / fl[u2], tol=1e-9)
        cx.prove("restored[%s]" % u2, m.get_current_units("length") == before)


def unit_factors_physical():
    """the documented factors against their physical definitions (CODATA via scipy.constants)"""
    import scipy.constants as const
    two_pi = 2.0 * const.pi
    return {"int": 1.0, "1/fs": 1.0, "1/cm": two_pi * const.c * 100.0 * 1e-15, "THz": two_pi * 1e12 * 1e-15,
            "eV": const.e / const.hbar * 1e-15, "meV": 1e-3 * const.e / const.hbar * 1e-15,
            "J": 1.0 / const.hbar * 1e-15, "SI": 1.0 / const.hbar * 1e-15,
            "a.u.": const.physical_constants["Hartree energy"][0] / const.hbar * 1e-15,
            "Ha": const.physical_constants["Hartree energy"][0] / const.hbar * 1e-15}


@harness("C05", "accessors",
         quick=[dict(u1=u) for u in ("1/cm", "eV", "nm", "int")], thorough=[dict(u1=u) for u in EUNITS],
         functions=[F_T + ":units_managed_property", F_T + ":units_managed_array_property",
                    F_T + ":managed_array_property", "quantarhei/core/frequency.py:FrequencyAxis.__init__",
                    "quantarhei/qm/hilbertspace/hamiltonian.py:Hamiltonian",
                    "quantarhei/builders/molecules.py:Molecule.set_energy",
                    "quantarhei/builders/molecules.py:Molecule.get_energy",
                    "quantarhei/builders/aggregate_base.py:AggregateBase.set_resonance_coupling",
                    "quantarhei/builders/aggregate_base.py:AggregateBase.get_resonance_coupling",
                    "quantarhei/builders/modes.py:Mode.set_energy", "quantarhei/builders/modes.py:Mode.get_energy"],
         bound="every units-managed accessor (FrequencyAxis start/step/data, Hamiltonian.data, Molecule energies, "
               "resonance couplings, mode frequencies): written under u1 (also nested inside a second, unrelated "
               "context) and read under every u2; symbolic non-zero values",
         out="")
def accessors(cx, u1):
    import quantarhei as qr
    from quantarhei.core.managers import Manager
    m = Manager()
    before = m.get_current_units("energy")
    v = cx.real("v", 0.5, 2.0)
    w = cx.real("w", 0.5, 2.0)
    cx.assume(v != 0, "values != 0")
    cx.assume(w != 0)
    with cx.concrete():
        mol = qr.Molecule(elenergies=[0.0, 1.0])
        mol2 = qr.Molecule(elenergies=[0.0, 1.0])
        agg = qr.Aggregate(molecules=[mol, mol2])
        agg.init_coupling_matrix()
        ham = qr.Hamiltonian(data=[[0.0, 0.0], [0.0, 1.0]])
    if cx.sym:
        # storage allocated by the concrete constructors becomes able to hold symbolic numbers
        from symnum import core
        mol.elenergies = core.to_obj(mol.elenergies)
        agg.resonance_coupling = core.to_obj(agg.resonance_coupling)
    # --- write under u1, nested inside an unrelated outer context
    for outer in (None, "THz"):
        octx = qr.energy_units(outer) if outer else contextlib.nullcontext()
        with octx:
            with qr.energy_units(u1):
                fa = qr.FrequencyAxis(v, 3, w)
                mol.set_energy(1, v)
                agg.set_resonance_coupling(0, 1, w)
                H = numpy.empty((2, 2), dtype=object if cx.sym else float)
                H[0, 0], H[0, 1], H[1, 0], H[1, 1] = v, w, w, v
                ham.data = H
        cx.check_div_obligations("finite")
        tag = "nested" if outer else "plain"
        # rotating-wave reference energies set while the units context is active
        octx2 = qr.energy_units(outer) if outer else contextlib.nullcontext()
        with octx2:
            with qr.energy_units(u1):
                ham.set_rwa([0, 1])
        cx.check_div_obligations("finite")
        cx.prove_eq(tag + "/stored_rwa", ham.rwa_energies, numpy.array([ham._data[0, 0], ham._data[1, 1]]),
                    tol=1e-9)
        cx.prove_eq(tag + "/stored_axis_start", fa._start, to_internal(v, u1), tol=1e-9)
        cx.prove_eq(tag + "/stored_axis_step", fa._step, to_internal(w, u1), tol=1e-9)
        cx.prove_eq(tag + "/stored_mol_energy", mol.elenergies[1], to_internal(v, u1), tol=1e-9)
        cx.prove_eq(tag + "/stored_coupling", agg.resonance_coupling[0, 1], to_internal(w, u1), tol=1e-9)
        cx.prove_eq(tag + "/stored_ham", ham._data[0, 1], to_internal(w, u1), tol=1e-9)
    # --- read under every u2
    for u2 in EUNITS:
        with qr.energy_units(u2):
            r_start, r_step, r_data = fa.start, fa.step, fa.data
            r_mol = mol.get_energy(1)
            r_coup = agg.get_resonance_coupling(0, 1)
            r_ham = ham.data
            r_skel = ham.get_RWA_skeleton()
        cx.check_div_obligations("finite")
        cx.prove_eq("rwa_skeleton[%s]" % u2, r_skel[1], from_internal(ham._data[1, 1], u2), tol=1e-9)
        cx.prove_eq("axis_start[%s]" % u2, r_start, from_internal(to_internal(v, u1), u2), tol=1e-9)
        cx.prove_eq("axis_step[%s]" % u2, r_step, from_internal(to_internal(w, u1), u2), tol=1e-9)
        cx.prove_eq("mol_energy[%s]" % u2, r_mol, from_internal(to_internal(v, u1), u2), tol=1e-9)
        cx.prove_eq("coupling[%s]" % u2, r_coup, from_internal(to_internal(w, u1), u2), tol=1e-9)
        cx.prove_eq("ham[%s]" % u2, r_ham[0, 1], from_internal(to_internal(w, u1), u2), tol=1e-9)
        if u2 != "nm":
            for i in range(3):
                cx.prove_eq("axis_data[%s]" % u2, r_data[i], from_internal(fa._data[i], u2), tol=1e-9)
    cx.prove("units_restored", m.get_current_units("energy") == before)


@harness("C05", "factor_table",
         quick=[dict()], thorough=[dict()],
         functions=[F_U + ":conversion_facs_energy"],
         bound="the 11 documented energy factors against their physical definitions (CODATA constants), relative "
               "tolerance 1e-6; ground arithmetic",
         out="")
def factor_table(cx):
    phys = unit_factors_physical()
    for u, f in phys.items():
        cx.prove("factor[%s]" % u, abs(efac(u) / f - 1.0) < 1e-6)
    import scipy.constants as const
    # wavelength: E_int = (1/lambda_nm)/f(nm) must be 2 pi c / lambda
    cx.prove("factor[nm]", abs((1.0 / 500.0) / efac("nm") / (2 * const.pi * const.c / 500e-9 * 1e-15) - 1.0) < 1e-6)


class _Boom(Exception):
    pass


def _nested(cx, m, units, raise_at, depth=0, trace="", ctxs=None):
    """enter the contexts in `units` one inside the other; raise at depth raise_at (or never);
    after every block, normal or exceptional, the units and the context counter are back"""
    import quantarhei as qr
    if depth == len(units):
        if raise_at == depth:
            raise _Boom()
        return
    before_u = m.get_current_units("energy")
    before_c = m._in_eu_count
    try:
        with (ctxs[depth] if ctxs is not None else qr.energy_units(units[depth])):
            cx.prove("inside%s" % trace, m.get_current_units("energy") == units[depth])
            if raise_at == depth:
                raise _Boom()
            _nested(cx, m, units, raise_at, depth + 1, trace + "." + units[depth], ctxs)
            cx.prove("inner_restored%s" % trace, m.get_current_units("energy") == units[depth])
    except _Boom:
        pass
    cx.prove("restored%s" % trace, m.get_current_units("energy") == before_u)
    cx.prove("count_restored%s" % trace, m._in_eu_count == before_c)
    if raise_at is not None and depth > 0 and raise_at >= depth:
        raise _Boom()


@harness("C05", "context_nesting",
         quick=[dict(maxdepth=3, units=["1/cm", "eV", "nm"])],
         thorough=[dict(maxdepth=4, units=["1/cm", "eV", "nm", "int"])],
         functions=[F_M + ":energy_units.__enter__", F_M + ":energy_units.__exit__",
                    F_M + ":Manager.set_current_units", F_M + ":Manager.get_current_units"],
         bound="every well-nested program of <=3 (thorough 4) energy-units contexts over 3 (4) units with an "
               "exception raised at any depth or not at all; each program also with context objects constructed in "
               "advance and entered later",
         out="threads")
def context_nesting(cx, maxdepth, units):
    import itertools
    import quantarhei as qr
    from quantarhei.core.managers import Manager
    m = Manager()
    n = 0
    for depth in range(1, maxdepth + 1):
        for us in itertools.product(units, repeat=depth):
            for raise_at in [None] + list(range(depth + 1)):
                try:
                    _nested(cx, m, list(us), raise_at, 0, "[%s|%s]" % (",".join(us), raise_at))
                except _Boom:
                    pass
                # the same program with the context objects created in advance (outside every
                # context) and entered later, as user scripts do (e_units = energy_units("1/cm"))
                ctxs = [qr.energy_units(u) for u in us]
                try:
                    _nested(cx, m, list(us), raise_at, 0, "pre[%s|%s]" % (",".join(us), raise_at), ctxs)
                except _Boom:
                    pass
                n += 2
    cx.note("programs: %d" % n)


def _library_calls(cx):
    """(name, thunk) pairs: public builder / calculator calls a user makes inside a units context"""
    import quantarhei as qr
    calls = []
    state = {}

    def molecules():
        with qr.energy_units("1/cm"):
            pass
        state["m"] = [qr.Molecule(elenergies=[0.0, 1.0]) for _ in range(2)]
        for i, mm in enumerate(state["m"]):
            mm.position = [5.0 * i, 0.0, 0.0]
            mm.set_dipole(0, 1, [1.0, 0.2 * i, 0.0])
    calls.append(("Molecule", molecules))

    def timeaxes():
        state["t"] = qr.TimeAxis(0.0, 8, 1.0)
        state["w"] = state["t"].get_FrequencyAxis()
        state["w"].get_TimeAxis()
    calls.append(("TimeAxis.get_FrequencyAxis", timeaxes))

    def cf():
        params = dict(ftype="OverdampedBrownian", reorg=0.001, cortime=100.0, T=300)
        state["cf"] = qr.CorrelationFunction(state["t"], params)
        for mm in state["m"]:
            mm.set_transition_environment((0, 1), state["cf"])
    calls.append(("CorrelationFunction", cf))

    def sd():
        params = dict(ftype="OverdampedBrownian", reorg=0.001, cortime=100.0, T=300)
        qr.SpectralDensity(state["t"], params)
    calls.append(("SpectralDensity", sd))

    def ft():
        qr.DFunction(state["t"], numpy.ones(8)).get_Fourier_transform()
    calls.append(("DFunction.get_Fourier_transform", ft))

    def aggregate():
        state["agg"] = qr.Aggregate(molecules=state["m"])
        state["agg"].set_resonance_coupling(0, 1, 0.01)
    calls.append(("Aggregate+set_resonance_coupling", aggregate))

    def dd():
        state["agg"].set_coupling_by_dipole_dipole()
    calls.append(("Aggregate.set_coupling_by_dipole_dipole", dd))

    def build():
        state["agg"].build()
    calls.append(("Aggregate.build", build))

    def getters():
        state["agg"].get_Hamiltonian()
        state["agg"].get_TransitionDipoleMoment()
        state["agg"].get_SystemBathInteraction()
        state["agg"].get_DensityMatrix(condition_type="thermal", temperature=300.0)
    calls.append(("Aggregate getters", getters))

    def tensor():
        ham = state["agg"].get_Hamiltonian()
        sbi = state["agg"].get_SystemBathInteraction()
        qr.qm.RedfieldRateMatrix(ham, sbi)
    calls.append(("RedfieldRateMatrix", tensor))

    def diag():
        state["agg"].diagonalize()
    calls.append(("Aggregate.diagonalize", diag))
    return calls


@harness("C05", "library_calls",
         quick=[dict(units=u) for u in ("1/cm", "eV")],
         thorough=[dict(units=u) for u in ("1/cm", "eV", "THz", "meV", "1/fs")],
         functions=["quantarhei/builders/aggregate_base.py:AggregateBase.build",
                    F_M + ":Manager.set_current_units", F_M + ":Manager.unset_current_units",
                    "quantarhei/qm/corfunctions/correlationfunctions.py:CorrelationFunction.__init__",
                    "quantarhei/core/time.py:TimeAxis.get_FrequencyAxis"],
         bound="a fixed script of 11 public builder/calculator calls (Molecule, axes, CorrelationFunction, "
               "SpectralDensity, Fourier transform, Aggregate, dipole-dipole couplings, build, getters, rate "
               "matrix, diagonalize) executed inside each energy-units context; after every call the caller's "
               "units must be the context's",
         out="calculators not in the script")
def library_calls(cx, units):
    import quantarhei as qr
    from quantarhei.core.managers import Manager
    m = Manager()
    before = m.get_current_units("energy")
    with cx.concrete():
        with qr.energy_units(units):
            for name, thunk in _library_calls(cx):
                try:
                    thunk()
                except Exception as e:
                    cx.note("call %s raised %s" % (name, type(e).__name__))
                got = m.get_current_units("energy")
                cx.prove("units_after[%s]" % name, got == units)
                if got != units:
                    m.set_current_units("energy", units)    # keep going: one finding per call site
        cx.prove("restored_after_block", m.get_current_units("energy") == before)


BATH_KINDS = {
    # name: (class, ftype, energy parameters, other parameters)
    "SD-OverdampedBrownian": ("SD", "OverdampedBrownian", ("reorg",), dict(cortime=100.0, T=300.0)),
    "SD-UnderdampedBrownian": ("SD", "UnderdampedBrownian", ("reorg", "freq", "gamma"), dict(T=300.0)),
    "SD-Underdamped": ("SD", "Underdamped", ("reorg", "freq", "gamma"), dict(T=300.0)),
    "CF-Underdamped": ("CF", "Underdamped", ("reorg", "freq", "gamma"), dict(T=300.0)),
    "CF-UnderdampedBrownian": ("CF", "UnderdampedBrownian", ("reorg", "freq", "gamma"), dict(T=300.0)),
    "CF-OverdampedBrownian": ("CF", "OverdampedBrownian", ("reorg",), dict(cortime=100.0, T=300.0, matsubara=1)),
    "SD-CP29": ("SD", "CP29", ("reorg",), dict(T=300.0)),
    "SD-B777-polynomial": ("SD", "B777", ("reorg",), dict(T=300.0, alternative_form=True)),
    "CF-OverdampedBrownian-HighTemperature": ("CF", "OverdampedBrownian-HighTemperature", ("reorg",),
                                              dict(cortime=100.0, T=300.0)),
}


@harness("C05", "bath_function_parameters",
         quick=[dict(kind=k, units=u) for k in BATH_KINDS for u in ("1/cm",)] +
               [dict(kind="SD-OverdampedBrownian", units="eV"), dict(kind="CF-OverdampedBrownian", units="THz")],
         thorough=[dict(kind=k, units=u) for k in BATH_KINDS for u in ("1/cm", "eV", "THz", "meV", "1/fs")],
         functions=["quantarhei/qm/corfunctions/spectraldensities.py:SpectralDensity.__init__",
                    "quantarhei/qm/corfunctions/spectraldensities.py:SpectralDensity._make_underdamped",
                    "quantarhei/qm/corfunctions/spectraldensities.py:SpectralDensity._make_CP29_spectral_density",
                    "quantarhei/qm/corfunctions/spectraldensities.py:SpectralDensity.measure_reorganization_energy",
                    "quantarhei/qm/corfunctions/correlationfunctions.py:CorrelationFunction.__init__",
                    F_M + ":Manager.convert_energy_2_internal_u"],
         bound="analytic bath functions (spectral densities: overdamped / underdamped Brownian, 'Underdamped', 'CP29' "
               "(reorganisation energy symbolic, a 4-point axis without the zero frequency, the numerically measured "
               "normalisation an uninterpreted, congruent value), the polynomial form of 'B777'; "
               "correlation functions: overdamped Brownian and its high-temperature form) whose energy parameters "
               "(reorganisation energy, oscillator frequency, damping; symbolic) are supplied inside an energy-units context "
               "as the converted numbers: data and reorganisation energy stored internally equal those of the "
               "same object built in internal units",
         out="the Renger form of B777 (it calls numpy.math.factorial, which the pinned NumPy does not have), CP29 on axes containing the zero frequency (its measured normalisation divides 0 by 0 "
             "there - numpy's nan semantics, not modelled), CP29's optional shape parameters, and correlation functions "
             "obtained by numerical transforms (the time-domain 'B777' and 'CP29' types cannot be constructed at all in "
             "this tree: they read self.energy_units, which is never set)")
def bath_function_parameters(cx, kind, units):
    import quantarhei as qr
    from quantarhei.core.managers import Manager
    cls, ftype, eparams, other = BATH_KINDS[kind]
    m = Manager()
    with cx.concrete():
        axis = qr.FrequencyAxis(-3 * 0.0625, 6, 0.0625) if cls == "SD" else qr.TimeAxis(0.0, 3, 10.0)
        if ftype == "CP29":
            # two points below and two above the change point of the line shape (22 1/cm = 0.00414 rad/fs); no point
            # at zero frequency, where the measured reorganisation energy divides 0 by 0
            axis = qr.FrequencyAxis(-0.0045, 4, 0.003)
    vals = {"reorg": cx.real("reorg", 0.001, 0.01)}
    if "freq" in eparams:
        vals["freq"] = cx.real("freq", 0.05, 0.2)
    if "gamma" in eparams:
        vals["gamma"] = cx.real("gamma", 0.005, 0.02)    # the damping is an energy-like parameter of these types
    for v in vals.values():
        cx.assume(v > 0, "energy parameters > 0")
    make = qr.SpectralDensity if cls == "SD" else qr.CorrelationFunction

    def build(in_units):
        with qr.energy_units(in_units):
            p = dict(ftype=ftype, **other)
            for k in eparams:
                p[k] = m.convert_energy_2_current_u(vals[k])    # the same physical quantity, in the context's units
            return make(axis, p)
    ref = build("int")
    obj = build(units)
    cx.assume_denominators_nonzero("parameters away from the poles of the analytic formulas")
    cx.prove_eq("data_independent_of_supplying_context", obj.data, ref.data, tol=1e-9)
    cx.prove_eq("reorganisation_energy_independent_of_supplying_context", obj.lamb, ref.lamb, tol=1e-9)
    with qr.energy_units(units):
        got = obj.get_reorganization_energy() if hasattr(obj, "get_reorganization_energy") else None
        want = m.convert_energy_2_current_u(vals["reorg"])
    if got is not None:
        cx.prove_eq("reorganisation_energy_read_back", got, want, tol=1e-9)


@harness("C05", "mixed_context_nesting",
         quick=[dict(maxdepth=3)], thorough=[dict(maxdepth=4)],
         functions=[F_M + ":length_units.__enter__", F_M + ":length_units.__exit__",
                    F_M + ":energy_units.__enter__", F_M + ":energy_units.__exit__",
                    F_M + ":Manager.set_current_units", F_M + ":Manager.unset_current_units"],
         bound="every well-nested program of <=3 (thorough 4) contexts drawn from {energy_units('1/cm'), "
               "energy_units('eV'), length_units('nm'), length_units('Bohr')} with an exception raised at any depth or "
               "not at all: inside each block its own unit type has the requested units and the other type is "
               "untouched; after each block, normal or exceptional, both unit types are back",
         out="threads")
def mixed_context_nesting(cx, maxdepth):
    import itertools
    import quantarhei as qr
    from quantarhei.core.managers import Manager
    m = Manager()
    alphabet = [("energy", "1/cm"), ("energy", "eV"), ("length", "nm"), ("length", "Bohr")]
    mk = dict(energy=qr.energy_units, length=qr.length_units)

    def run(prog, raise_at, depth, trace):
        if depth == len(prog):
            if raise_at == depth:
                raise _Boom()
            return
        typ, u = prog[depth]
        other = "length" if typ == "energy" else "energy"
        before = (m.get_current_units("energy"), m.get_current_units("length"))
        try:
            with mk[typ](u):
                cx.prove("inside%s" % trace, m.get_current_units(typ) == u)
                cx.prove("other_type_untouched%s" % trace,
                         m.get_current_units(other) == before[0 if other == "energy" else 1])
                if raise_at == depth:
                    raise _Boom()
                run(prog, raise_at, depth + 1, trace + "." + u)
                cx.prove("inner_restored%s" % trace, m.get_current_units(typ) == u)
        except _Boom:
            pass
        cx.prove("restored%s" % trace, (m.get_current_units("energy"), m.get_current_units("length")) == before)
        if raise_at is not None and depth > 0 and raise_at >= depth:
            raise _Boom()
    n = 0
    for depth in range(1, maxdepth + 1):
        for prog in itertools.product(alphabet, repeat=depth):
            if all(t == "energy" for t, _ in prog):
                continue        # covered by context_nesting
            for raise_at in [None] + list(range(depth + 1)):
                try:
                    run(list(prog), raise_at, 0, "[%s|%s]" % (",".join(u for _, u in prog), raise_at))
                except _Boom:
                    pass
                except Exception as e:      # noqa: BLE001 - e.g. "Units to restore not found"
                    cx.fail("restored[%s|%s]" % (",".join(u for _, u in prog), raise_at),
                            "%s: %s" % (type(e).__name__, str(e)[:80]))
                    m.set_current_units("energy", "1/fs") if False else None
                n += 1
    cx.note("programs: %d" % n)
