"""C15 Propagation results are functions of their inputs only."""
import numpy
from vf.framework import harness
from harness.common import build_sbi, set_symmetric_hamiltonian, set_symmetric_K, tensor_with_identities

F_P = "quantarhei/qm/propagators/rdmpropagator.py"
F_SV = "quantarhei/qm/propagators/svpropagator.py"
F_PP = "quantarhei/qm/propagators/poppropagator.py"
F_HE = "quantarhei/qm/liouvillespace/heom.py"
F_ES = "quantarhei/qm/liouvillespace/evolutionsuperoperator.py"
F_H = "quantarhei/qm/hilbertspace/hamiltonian.py"
D = "quantarhei/qm/liouvillespace/"


def snapshot_arrays(**named):
    return {k: (v.copy() if isinstance(v, numpy.ndarray) else v) for k, v in named.items()}


def unchanged(cx, label, before, **after):
    for k, v in after.items():
        if isinstance(v, numpy.ndarray):
            cx.prove_eq("%s/input_unchanged_%s" % (label, k), v, before[k])
        else:
            cx.prove("%s/input_unchanged_%s" % (label, k), v == before[k])


@harness("C15", "rdm_propagate_repeat",
         quick=[dict(kind="tensor", first_nref=1), dict(kind="lindblad_op", first_nref=1),
                dict(kind="none", first_nref=2), dict(kind="tensor", first_nref=1, pdeph="Lorentzian"),
                dict(kind="tensor", first_nref=1, pdeph="Gaussian"), dict(kind="td_operators", first_nref=1)],
         thorough=[dict(kind=k, first_nref=r) for k in ("none", "tensor", "lindblad_op", "lindblad_tensor", "td_tensor")
                   for r in (1, 2) if not (k == "td_tensor" and r == 2)] +
                  [dict(kind="tensor", first_nref=1, pdeph=d) for d in ("Lorentzian", "Gaussian")] +
                  [dict(kind="td_operators", first_nref=1)],
         functions=[F_P + ":ReducedDensityMatrixPropagator.propagate",
                    F_P + ":ReducedDensityMatrixPropagator.setDtRefinement",
                    F_P + ":ReducedDensityMatrixPropagator._INIT_EXP"],
         bound="N=2, order 2, 2 stored times; histories [propagate, propagate] and [propagate(Nref=2), propagate()] on "
               "one propagator; H, generator, initial state symbolic; also with an additional pure-dephasing object "
               "(Lorentzian / Gaussian, symbolic rates)",
         out="field-driven variants")
def rdm_propagate_repeat(cx, kind, first_nref, pdeph=None):
    from quantarhei.qm import ReducedDensityMatrixPropagator
    from harness.C02 import make_system, initial_state
    N = 2
    ham, time, RT, H, gen, extra = make_system(cx, N, 2, kind)
    rhoi, rho0 = initial_state(cx, N)
    before = snapshot_arrays(H=ham._data, rho=rhoi._data, t=time.data,
                             R=(RT._data if (RT is not None and not RT.as_operators) else None))
    if cx.sym and kind == "td_operators":
        cx.assume_denominators_nonzero("")
    kw = {}
    if pdeph is not None:
        from quantarhei.qm.liouvillespace.puredephasing import PureDephasing
        with cx.concrete():
            pd = PureDephasing(drates=numpy.zeros((N, N)), dtype=pdeph)
        pd.data = cx.real_symmetric("gam", N, zero_diag=True)
        before["gam"] = pd.data.copy()
        kw = dict(PDeph=pd)
    fresh = ReducedDensityMatrixPropagator(time, ham, RTensor=RT, **kw).propagate(rhoi, method="short-exp-2").data.copy()
    unchanged(cx, "after_fresh", before, H=ham._data, rho=rhoi._data, t=time.data)
    if cx.failed_so_far():
        return      # the inputs are already modified: what follows would only compound it
    prop = ReducedDensityMatrixPropagator(time, ham, RTensor=RT, **kw)
    first = prop.propagate(rhoi, method="short-exp-2", Nref=first_nref).data.copy()
    unchanged(cx, "after_first", before, H=ham._data, rho=rhoi._data, t=time.data)
    if before["R"] is not None:
        cx.prove_eq("after_first/input_unchanged_R", RT._data, before["R"])
    if pdeph is not None:
        cx.prove_eq("after_first/input_unchanged_dephasing_rates", pd.data, before["gam"])
    second = prop.propagate(rhoi, method="short-exp-2").data.copy()
    label = "repeat_after_refined_call" if first_nref > 1 else "repeat"
    cx.prove_eq(label, second, fresh, tol=1e-9)
    if first_nref == 1:
        cx.prove_eq("first_equals_fresh", first, fresh)
    else:
        # the same refined call twice on one propagator, and on a fresh one
        p2 = ReducedDensityMatrixPropagator(time, ham, RTensor=RT, **kw)
        r1 = p2.propagate(rhoi, method="short-exp-2", Nref=first_nref).data.copy()
        r2 = p2.propagate(rhoi, method="short-exp-2", Nref=first_nref).data.copy()
        cx.prove_eq("refined_repeat", r2, r1, tol=1e-9)
        cx.prove_eq("refined_first_equals_fresh", first, r1, tol=1e-9)


@harness("C15", "other_propagators_repeat",
         quick=[dict(which="sv"), dict(which="pop"), dict(which="eso")],
         thorough=[dict(which="sv"), dict(which="pop"), dict(which="eso")],
         functions=[F_SV + ":StateVectorPropagator.propagate", F_PP + ":PopulationPropagator.propagate",
                    F_ES + ":EvolutionSuperOperator.calculate"],
         bound="N=2, 2-3 stored times: the same call twice on one state-vector propagator / population propagator / "
               "evolution superoperator; inputs unchanged and results identical",
         out="")
def other_propagators_repeat(cx, which):
    import quantarhei as qr
    N = 2
    with cx.concrete():
        time = qr.TimeAxis(0.0, 3, 1.0)
    if which == "sv":
        from quantarhei.qm.propagators.svpropagator import StateVectorPropagator
        with cx.concrete():
            ham = qr.Hamiltonian(data=numpy.diag(numpy.arange(N, dtype=float)))
            psi = qr.StateVector(N)
        H = cx.real_symmetric("H", N)
        ham._data = H.copy()
        p0 = cx.cplx_array("psi", N)
        psi._data = p0.copy()
        prop = StateVectorPropagator(time, ham)
        a = prop.propagate(psi, L=2).data.copy()
        b = prop.propagate(psi, L=2).data.copy()
        cx.prove_eq("repeat", b, a)
        cx.prove_eq("input_unchanged_H", ham._data, H)
        cx.prove_eq("input_unchanged_psi", psi._data, p0)
    elif which == "pop":
        from quantarhei.qm.propagators.poppropagator import PopulationPropagator
        from harness.C17 import rate_matrix
        K = rate_matrix(cx, N)
        K0 = K.copy()
        p0 = cx.real_array("p", N)
        p00 = p0.copy()
        prop = PopulationPropagator(time, rate_matrix=K)
        a = prop.propagate(p0).copy()
        b = prop.propagate(p0).copy()
        cx.prove_eq("repeat", b, a)
        cx.prove_eq("input_unchanged_K", K, K0)
        cx.prove_eq("input_unchanged_p", p0, p00)
    else:
        from quantarhei.qm import EvolutionSuperOperator
        from harness.C08 import system
        ham, RT, time2, H, R, step = system(cx, N, 2)
        eso = EvolutionSuperOperator(time2, ham=ham, relt=RT)
        eso.calculate()
        a = eso.data.copy()
        eso.calculate()
        cx.prove_eq("repeat", eso.data, a)
        cx.prove_eq("input_unchanged_H", ham._data, H)
        cx.prove_eq("input_unchanged_R", RT._data, R)


@harness("C15", "heom_repeat",
         quick=[dict(nbath=1, depth=1)], thorough=[dict(nbath=1, depth=1), dict(nbath=2, depth=1), dict(nbath=1, depth=2)],
         functions=[F_HE + ":KTHierarchyPropagator.propagate", F_HE + ":KTHierarchy.reset_ados"],
         bound="1-2 baths, depth 1-2, N=2, 2 stored times, order 2: propagate twice on the same hierarchy objects",
         out="")
def heom_repeat(cx, nbath, depth):
    import quantarhei as qr
    from harness.C16 import make_hierarchy, make_propagator
    N = 2
    hy, inp = make_hierarchy(cx, nbath, depth, N)
    kp = make_propagator(cx, hy)
    rho = cx.hermitian("rho", N)
    with cx.concrete():
        rhoi = qr.ReducedDensityMatrix(dim=N)
    rhoi._data = rho.copy()
    a = kp.propagate(rhoi, L=2).data.copy()
    cx.assume_denominators_nonzero("correlation times > 0")
    b = kp.propagate(rhoi, L=2).data.copy()
    cx.prove_eq("repeat", b, a, tol=1e-9)
    cx.prove_eq("input_unchanged_rho", rhoi._data, rho)
    cx.prove_eq("input_unchanged_H", hy.ham.data, inp["H"])


@harness("C15", "tensor_construction_inputs",
         quick=[dict(theory="redfield"), dict(theory="lindblad"), dict(theory="foerster"), dict(theory="lindblad_op"), dict(theory="redfield_op")],
         thorough=[dict(theory=t) for t in ("redfield", "tdredfield", "lindblad", "foerster", "redfield_foerster", "lindblad_op", "redfield_op")],
         functions=[D + "redfieldtensor.py:RedfieldRelaxationTensor.__init__",
                    D + "tdredfieldtensor.py:TDRedfieldRelaxationTensor._implementation",
                    D + "lindbladform.py:LindbladForm._implementation",
                    D + "foerstertensor.py:FoersterRelaxationTensor.initialize",
                    D + "redfieldfoerster.py:RedfieldFoersterRelaxationTensor._reference_implementation"],
         bound="N=2 (ground + N-1 baths for Foerster types): building each tensor twice from the same Hamiltonian and "
               "system-bath interaction gives the same tensor and leaves H, K_m and the remainder coupling unchanged",
         out="OpenSystem.get_RelaxationTensor dispatch (it additionally diagonalises / cuts couplings; see "
             "cutoff_roundtrip)")
def tensor_construction_inputs(cx, theory):
    from quantarhei.qm import (RedfieldRelaxationTensor, TDRedfieldRelaxationTensor, LindbladForm,
                               FoersterRelaxationTensor)
    from quantarhei.qm.liouvillespace.redfieldfoerster import RedfieldFoersterRelaxationTensor
    N = 2
    nb = 1
    ham, sbi, time = build_sbi(cx, N, nb, Nt=4)
    H = set_symmetric_hamiltonian(cx, ham)
    K = set_symmetric_K(cx, sbi, N)
    H0, K0 = H.copy(), K.copy()
    if cx.sym:
        from symnum import linalg
        linalg.use_eigh(eigen_equation=False)
    if theory in ("lindblad", "lindblad_op"):
        sbi.rates = [cx.real("g0", 0.0, 0.1)]

    def build():
        if theory == "redfield":
            return RedfieldRelaxationTensor(ham, sbi)
        if theory == "tdredfield":
            return TDRedfieldRelaxationTensor(ham, sbi)
        if theory == "lindblad":
            return LindbladForm(ham, sbi, as_operators=False)
        if theory == "foerster":
            return FoersterRelaxationTensor(ham, sbi)
        ham.JR = cx.real_symmetric("JR", N, zero_diag=True)
        ham._has_remainder_coupling = True
        return RedfieldFoersterRelaxationTensor(ham, sbi)
    if theory in ("lindblad_op", "redfield_op"):
        # operator form: build, use the object (explicit basis change), build again from the same inputs
        cls = LindbladForm if theory == "lindblad_op" else RedfieldRelaxationTensor
        first = cls(ham, sbi, as_operators=True)
        Km1, Lm1 = numpy.array(first._Km).copy(), numpy.array(first._Lm).copy()
        if cx.sym:
            from symnum import linalg, npatch
            S = linalg.givens_orthogonal(N, "T")
            npatch.tag_inverse(S, S.T.copy())
        else:
            c, s_ = cx.real("T.c0", 0.3, 0.9), cx.real("T.s0", 0.3, 0.9)
            nrm = (c * c + s_ * s_) ** 0.5
            S = numpy.array([[c / nrm, -s_ / nrm], [s_ / nrm, c / nrm]])
            for i in range(N):
                S[:, i] *= (1.0 if cx.real("T.sg%d" % i) >= 0 else -1.0)
        first.transform(S)
        cx.prove_eq("input_unchanged_K_after_transform", sbi.KK, K0)
        cx.prove_eq("input_unchanged_H_after_transform", ham._data, H0)
        second = cls(ham, sbi, as_operators=True)
        cx.prove_eq("rebuilt_same_Km", second._Km, Km1, tol=1e-9)
        cx.prove_eq("rebuilt_same_Lm", second._Lm, Lm1, tol=1e-9)
        return
    a = build()._data.copy()
    JR0 = ham.JR.copy() if getattr(ham, "_has_remainder_coupling", False) else None
    b = build()._data.copy()
    cx.prove_eq("same_tensor", b, a, tol=1e-9)
    cx.prove_eq("input_unchanged_H", ham._data, H0)
    cx.prove_eq("input_unchanged_K", sbi.KK, K0)
    if JR0 is not None:
        cx.prove_eq("input_unchanged_JR", ham.JR, JR0)
    cx.prove("basis_protection_unchanged", ham.is_basis_protected is False)


@harness("C15", "cutoff_roundtrip",
         quick=[dict(N=3), dict(N=2, units="1/cm")], thorough=[dict(N=3), dict(N=2, units="1/cm"), dict(N=3, units="eV")],
         functions=[F_H + ":Hamiltonian.subtract_cutoff_coupling", F_H + ":Hamiltonian.recover_cutoff_coupling",
                    F_H + ":Hamiltonian.remove_cutoff_coupling"],
         bound="with units=u the whole round trip runs inside energy_units(u), the cut-off given in those units; N=3 (3 couplings, 27 branch combinations; N=4 has 729 and exceeds the path budget): couplings and cut-off symbolic, every branch of |J|<=cut / sign explored: "
               "subtract (or remove) followed by recover restores the Hamiltonian; the removed part plus the kept "
               "part is the original",
         out="")
def cutoff_roundtrip(cx, N, units=None):
    import contextlib
    import quantarhei as qr
    with (qr.energy_units(units) if units else contextlib.nullcontext()):
        _cutoff_roundtrip(cx, N, units)


def _cutoff_roundtrip(cx, N, units):
    import quantarhei as qr
    with cx.concrete():
        ham = qr.Hamiltonian(data=numpy.diag(numpy.arange(N, dtype=float)))
    H = cx.real_symmetric("H", N)
    cut = cx.real("cut", 0.0, 0.5)
    cx.assume(cut >= 0, "coupling cut-off >= 0")
    cut_internal = cut
    if units:
        # the cut-off is given in the units of the surrounding context (the Hamiltonian's couplings are read in them)
        cut = qr.Manager().convert_energy_2_current_u(cut)
    for how in ("subtract", "remove"):
        ham._data = H.copy()
        ham._has_remainder_coupling = False
        if how == "subtract":
            ham.subtract_cutoff_coupling(cut)
        else:
            ham.remove_cutoff_coupling(cut)
        cx.assume_denominators_nonzero("sign = J/|J| only evaluated for |J| > cut >= 0")
        cx.prove_eq(how + "/split_is_exact", ham._data + ham.JR, H)
        if how == "remove":
            # which couplings are removed is decided by their physical size: |J| below the cut-off (both read in
            # the same units) go to the remainder entirely, all others stay entirely
            for i in range(N):
                for j in range(i + 1, N):
                    small = abs(H[i, j]) < abs(cut_internal)
                    if small:
                        cx.prove_eq("remove/small_coupling_removed[%d,%d]" % (i, j), [ham._data[i, j], ham.JR[i, j]],
                                    [0, H[i, j]])
                    else:
                        cx.prove_eq("remove/large_coupling_kept[%d,%d]" % (i, j), [ham._data[i, j], ham.JR[i, j]],
                                    [H[i, j], 0])
        cx.prove_eq(how + "/diagonal_untouched", numpy.diag(ham._data), numpy.diag(H))
        ham.recover_cutoff_coupling()
        cx.prove_eq(how + "/recovered", ham._data, H)
        cx.prove(how + "/flag_cleared", ham._has_remainder_coupling is False)


@harness("C15", "population_corrections_repeat",
         quick=[dict(corrections=0), dict(corrections=1)], thorough=[dict(corrections=c) for c in (0, 1)],
         functions=[F_PP + ":PopulationPropagator.get_PropagationMatrix",
                    F_PP + ":PopulationPropagator._split_relaxation_matrix", F_PP + ":PopulationPropagator.propagate"],
         bound="N=2 rate matrix given by a real eigen-decomposition (eig stub as in C17), sub-axis of 3 points: "
               "get_PropagationMatrix(sub, corrections=0 / 1, exact=True) leaves the caller's rate matrix and the "
               "propagator's copy unchanged, returns the diagonal/transfer split K = -diag(KD) + KT, and a following "
               "propagate() and a repeated call give what they gave before",
         out="the numerical (non-exact) corrections (quadrature loops)")
def population_corrections_repeat(cx, corrections):
    from quantarhei import TimeAxis
    from quantarhei.qm.propagators.poppropagator import PopulationPropagator
    N = 2
    with cx.concrete():
        ta = TimeAxis(0.0, 4, 1.0)
        ts = TimeAxis(0.0, 3, 1.0)
    lam = cx.real_array("lam", N)
    S = cx.real_array("S", (N, N))
    det = S[0, 0] * S[1, 1] - S[0, 1] * S[1, 0]
    if cx.sym:
        from symnum import npatch
        cx.assume(det == 1, "eig stub: eigenvector matrix normalised to det S = 1")
        S1 = numpy.array([[S[1, 1], -S[0, 1]], [-S[1, 0], S[0, 0]]], dtype=object)
        npatch.tag_inverse(S, S1)
        K = numpy.dot(S, numpy.dot(numpy.diag(lam), S1))
        old = numpy.linalg.eig

        def eig_stub(A):
            S_ = S.copy()
            npatch.tag_inverse(S_, S1)
            return lam.copy(), S_
        numpy.linalg.eig = eig_stub
    else:
        S = S / numpy.sqrt(abs(det)) if det != 0 else S
        K = S @ numpy.diag(lam) @ numpy.linalg.inv(S)
    K0 = numpy.array(K).copy()
    p0 = cx.real_array("p", N)
    try:
        prop = PopulationPropagator(ta, rate_matrix=K)
        before = prop.propagate(p0).copy()
        KD, KT = prop._split_relaxation_matrix()
        for i in range(N):
            cx.prove_eq("split/diagonal[%d]" % i, KD[i], -K0[i, i])
            for j in range(N):
                cx.prove_eq("split/transfer[%d,%d]" % (i, j), KT[i, j], 0 if i == j else K0[i, j])
        cx.prove_eq("after_split/caller_matrix_unchanged", K, K0)
        cx.prove_eq("after_split/propagator_matrix_unchanged", prop.KK, K0)
        cx.assume_denominators_nonzero("distinct depopulation rates (the exact first-order correction divides by their difference)")
        r1 = prop.get_PropagationMatrix(ts, corrections=corrections, exact=True)
        cx.assume_denominators_nonzero("distinct depopulation rates")
        cx.prove_eq("after_corrections/caller_matrix_unchanged", K, K0)
        cx.prove_eq("after_corrections/propagator_matrix_unchanged", prop.KK, K0)
        after = prop.propagate(p0)
        cx.prove_eq("propagate_repeats", after, before)
        r2 = prop.get_PropagationMatrix(ts, corrections=corrections, exact=True)
        cx.assume_denominators_nonzero("distinct depopulation rates")
        cx.prove_eq("propagation_matrix_repeats", r2[0], r1[0])
        for k, (c1, c2) in enumerate(zip(r1[1] if isinstance(r1[1], tuple) else (r1[1],),
                                         r2[1] if isinstance(r2[1], tuple) else (r2[1],))):
            cx.prove_eq("correction_%d_repeats" % k, c2, c1)
    finally:
        if cx.sym:
            numpy.linalg.eig = old
