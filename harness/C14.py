"""C14 Initial and thermal states are valid Boltzmann density matrices."""
import numpy
from vf.framework import harness
from harness.common import build_aggregate, spectral_hamiltonian

F_AB = "quantarhei/builders/aggregate_base.py"
F_OS = "quantarhei/builders/opensystem.py"

EMAX = 4.0     # rad/fs  (about 21000 1/cm): window of optical energies


def _energies(cx, n, name="E"):
    E = cx.real_array(name, n)
    for i in range(n):
        cx.assume(E[i] >= 0, "diagonal energies within [0, %g] rad/fs" % EMAX)
        cx.assume(E[i] <= EMAX)
    return E


def _is_valid_state(cx, label, rho, thermal=True):
    n = rho.shape[0]
    cx.prove_eq(label + "/hermitian", rho, numpy.conj(rho.T))
    for i in range(n):
        d = rho[i, i].real if hasattr(rho[i, i], "real") else rho[i, i]
        cx.prove(label + "/diag_nonneg[%d]" % i, d >= 0)
    if thermal:
        cx.prove_eq(label + "/trace", numpy.trace(rho), 1)
        off = ~numpy.eye(n, dtype=bool)
        cx.prove_eq(label + "/offdiag", rho[off], numpy.zeros(int(off.sum()), dtype=int))


@harness("C14", "thermal_population_finite",
         quick=[dict(n=2, start=0, sub="none"), dict(n=3, start=1, sub="none"), dict(n=3, start=1, sub="min"),
                dict(n=3, start=1, sub="reorg")],
         thorough=[dict(n=n, start=s, sub=k) for n in (2, 3, 4) for s in (0, 1) for k in ("none", "min", "reorg")
                   if s < n],
         functions=[F_AB + ":AggregateBase._thermal_population"],
         bound="n<=3 levels (thorough 4), start in {0,1}; diagonal energies symbolic in [0,4] rad/fs, "
               "reorganisation energies in [0, 0.1], T>=0 fully symbolic; IEEE double exp modelled: "
               "exp(x)=0 <=> x < -745.14, exp(x) finite <=> x <= 709.78",
         out="rounding; underflow of kB*T itself for T < 1e-300 K")
def thermal_population_finite(cx, n, start, sub):
    """finiteness: every division in the real code has a non-zero denominator and no exp overflows"""
    from quantarhei.builders.aggregate_base import AggregateBase
    if cx.sym:
        from symnum.core import ENGINE
        ENGINE.exp_underflow = True
    E = _energies(cx, n)
    T = cx.real("T", 0.0, 400.0)
    cx.assume(T >= 0, "temperature >= 0 K")
    H = numpy.diag(E)
    subtract = None
    if sub == "min":
        m = numpy.amin(numpy.array([E[i] for i in range(start, n)]))
        subtract = numpy.array([m] * n)
    elif sub == "reorg":
        lam = cx.real_array("lam", n - start)
        for i in range(n - start):
            cx.assume(lam[i] >= 0, "reorganisation energies in [0, 0.1] rad/fs")
            cx.assume(lam[i] <= 0.1)
        subtract = lam
    rho = AggregateBase._thermal_population(None, temp=T, subtract=subtract,
                                            relaxation_hamiltonian=H, start=start)
    if cx.sym:
        cx.check_div_obligations("finite")
    else:
        ok = bool(numpy.all(numpy.isfinite(rho)))
        cx.prove("finite", ok)
        if not ok:
            return
    _is_valid_state(cx, "rho", rho)


@harness("C14", "thermal_population_boltzmann",
         quick=[dict(n=2, start=0, sub="none"), dict(n=3, start=1, sub="min")],
         thorough=[dict(n=n, start=s, sub=k) for n in (2, 3, 4) for s in (0, 1) for k in ("none", "min", "reorg")
                   if s < n],
         functions=[F_AB + ":AggregateBase._thermal_population"],
         bound="n<=3 levels (thorough 4); energies, reorganisation energies and T>=0 symbolic; exp as an "
               "uninterpreted function with exp(a+b)=exp(a)exp(b) instantiated for the arguments that occur",
         out="the numerical value of exp")
def thermal_population_boltzmann(cx, n, start, sub):
    from quantarhei.builders.aggregate_base import AggregateBase
    from quantarhei.core.units import kB_intK
    E = cx.real_array("E", n)
    T = cx.real("T", 1.0, 400.0)
    cx.assume(T >= 0, "temperature >= 0 K")
    H = numpy.diag(E)
    subtract = None
    eff = [E[i] for i in range(n)]
    if sub == "min":
        m = numpy.amin(numpy.array([E[i] for i in range(start, n)]))
        subtract = numpy.array([m] * n)
    elif sub == "reorg":
        lam = cx.real_array("lam", n - start)
        subtract = lam
        eff = [E[i] - (lam[i - start] if i >= start else 0) for i in range(n)]
    rho = AggregateBase._thermal_population(None, temp=T, subtract=subtract,
                                            relaxation_hamiltonian=H, start=start)
    cx.check_div_obligations("finite")
    _is_valid_state(cx, "rho", rho)
    zero_T = (T == 0)
    if (cx.sym and bool(zero_T)) or (not cx.sym and T == 0):
        # zero-temperature limit of the Boltzmann state: everything in a level of lowest energy
        for i in range(start, n):
            occupied = (rho[i, i] != 0)
            if (cx.sym and bool(occupied)) or (not cx.sym and occupied):
                for j in range(start, n):
                    cx.prove("zeroT_lowest[%d,%d]" % (i, j), eff[i] <= eff[j])
        return
    for i in range(start):
        cx.prove_eq("below_start[%d]" % i, rho[i, i], 0)
    # p_a exp(-E_b/kT) = p_b exp(-E_a/kT) with the energies the state is defined by
    for a in range(start, n):
        for b in range(a + 1, n):
            w = numpy.exp(-(eff[a] - eff[b]) / (kB_intK * T))
            cx.prove_eq("ratio[%d,%d]" % (a, b), rho[a, a], rho[b, b] * w, tol=1e-6)


def _symbolic_frenkel(cx, agg, window=True):
    """overwrite the built aggregate's Hamiltonian by a symbolic single-exciton Frenkel
    matrix (ground state energy 0, decoupled from the excited block)"""
    N = agg.HamOp.dim
    H = numpy.zeros((N, N), dtype=float)
    if cx.sym:
        from symnum import core
        H = core.zeros((N, N))
    for i in range(1, N):
        H[i, i] = cx.real("e_%d" % i, 1.0, 2.0)
        if window:
            cx.assume(H[i, i] >= 0.5, "site energies in [0.5, %g] rad/fs" % EMAX)
            cx.assume(H[i, i] <= EMAX)
        for j in range(i + 1, N):
            v = cx.real("J_%d_%d" % (i, j), -0.05, 0.05)
            H[i, j] = v
            H[j, i] = v
    agg.HamOp._data = H
    return H


def _psd2(cx, label, rho):
    """positive semidefinite: non-negative diagonal and non-negative principal 2x2 minors
    (and the determinant for 3x3)"""
    n = rho.shape[0]
    for i in range(n):
        cx.prove("%s/diag[%d]" % (label, i), rho[i, i].real >= 0)
        for j in range(i + 1, n):
            m = (rho[i, i] * rho[j, j] - rho[i, j] * rho[j, i]).real
            cx.prove("%s/minor[%d,%d]" % (label, i, j), m >= 0)


@harness("C14", "aggregate_states",
         quick=[dict(nmol=2, cond="thermal", limit="weak_coupling"),
                dict(nmol=2, cond="thermal_excited_state", limit="strong_coupling"),
                dict(nmol=2, cond="impulsive_excitation", limit="weak_coupling")],
         thorough=[dict(nmol=n, cond=c, limit=l) for n in (2, 3)
                   for c in ("thermal", "thermal_excited_state", "impulsive_excitation")
                   for l in ("weak_coupling", "strong_coupling")
                   if not (c == "thermal_excited_state" and l == "weak_coupling")],
         functions=[F_AB + ":AggregateBase.get_DensityMatrix", F_AB + ":AggregateBase._thermal_population",
                    F_AB + ":AggregateBase._impulsive_population"],
         bound="dimer (thorough trimer), single-exciton band; site energies in [0.5,4] rad/fs, couplings and "
               "transition dipoles arbitrary, T>=0 symbolic; IEEE exp under/overflow modelled",
         out="vibrational sub-structure")
def aggregate_states(cx, nmol, cond, limit):
    if cx.sym:
        from symnum.core import ENGINE
        ENGINE.exp_underflow = True
    agg = build_aggregate(cx, nmol)
    H = _symbolic_frenkel(cx, agg)
    T = cx.real("T", 0.0, 400.0)
    cx.assume(T >= 0, "temperature >= 0 K")
    N = agg.HamOp.dim
    DD = None
    if cond == "impulsive_excitation":
        DD = numpy.zeros((N, N, 3), dtype=object if cx.sym else float)
        if cx.sym:
            from symnum import core
            DD[...] = core.lift(0)
        for i in range(1, N):
            for k in range(3):
                d = cx.real("d_%d_%d" % (i, k))
                DD[0, i, k] = d
                DD[i, 0, k] = d
    try:
        rho = agg.get_DensityMatrix(condition_type=cond, relaxation_theory_limit=limit,
                                    temperature=T, DD=DD)
    except Exception as e:
        if cx.sym:
            raise
        # on concrete inputs the builder refusing to hand out a state is the failure itself
        # (a NaN matrix is rejected by DensityMatrix as "not selfadjoint")
        cx.fail("finite", "get_DensityMatrix raised %s: %s" % (type(e).__name__, e))
        return
    data = rho._data
    if cx.sym:
        cx.check_div_obligations("finite")
    else:
        ok = bool(numpy.all(numpy.isfinite(data)))
        cx.prove("finite", ok)
        if not ok:
            return
    cx.prove_eq("hermitian", data, numpy.conj(data.T))
    if cond == "impulsive_excitation":
        _psd2(cx, "psd", data)
    else:
        cx.prove_eq("trace", numpy.trace(data), 1)
        _psd2(cx, "psd", data)
        # an explicitly requested T = 0 gives the zero-temperature limit (lowest level of the band
        # the state is defined on), also when the aggregate's bath has its own temperature
        if limit == "strong_coupling" or cond == "thermal":
            zero = (T == 0)
            if (cx.sym and bool(zero)) or (not cx.sym and zero):
                start = 0 if cond == "thermal" else int(agg.Nb[0])
                if cond == "thermal":
                    en = [H[i, i] for i in range(N)]
                else:
                    en = [H[i, i] - (agg.sbi.get_reorganization_energy(i - start) if i >= start else 0.0)
                          for i in range(N)]
                for i in range(N):
                    occ = (data[i, i].real != 0) if cx.sym else (abs(data[i, i]) > 1e-12)
                    if (cx.sym and bool(occ)) or (not cx.sym and occ):
                        cx.prove("zeroT_in_band[%d]" % i, i >= start)
                        for j in range(start, N):
                            cx.prove("zeroT_lowest[%d,%d]" % (i, j), en[i] <= en[j])
                        cx.prove_eq("zeroT_pure[%d]" % i, data[i, i], 1)


@harness("C14", "weak_coupling_basis",
         quick=[dict(nmol=2, limit="weak_coupling"), dict(nmol=2, limit="strong_coupling")],
         thorough=[dict(nmol=2, limit=l) for l in ("weak_coupling", "strong_coupling")],
         functions=[F_AB + ":AggregateBase.get_DensityMatrix", "quantarhei/core/managers.py:eigenbasis_of.__enter__",
                    "quantarhei/core/managers.py:eigenbasis_of.__exit__",
                    "quantarhei/qm/hilbertspace/operators.py:Operator.transform"],
         bound="dimer (the trimer's 3x3 excited block with Exp terms did not finish in 25 minutes): excitonic (weak coupling) and site (strong coupling) equilibrium requested outside any context vs inside "
               "eigenbasis_of(H) and read outside; Hamiltonian symbolic, eigenbasis from the eigh contract "
               "(block-diagonal orthogonal S with H S = S diag(w)), T>0 symbolic",
         out="")
def weak_coupling_basis(cx, nmol, limit):
    import quantarhei as qr
    agg = build_aggregate(cx, nmol)
    N = agg.HamOp.dim
    T = cx.real("T", 50.0, 400.0)
    cx.assume(T > 0, "temperature > 0 K")
    H, w, S = spectral_hamiltonian(cx, N, block=[[0], list(range(1, N))])
    agg.HamOp._data = H.copy()
    cx.note("Hamiltonian given by its eigen-decomposition H = S diag(w) S^T with S a block-diagonal "
            "orthogonal matrix (ground state decoupled) and w ascending: all such H by the spectral theorem")
    ham = agg.get_Hamiltonian()
    rho_out = agg.get_DensityMatrix(condition_type="thermal_excited_state",
                                    relaxation_theory_limit=limit, temperature=T)
    with qr.eigenbasis_of(ham):
        rho_in = agg.get_DensityMatrix(condition_type="thermal_excited_state",
                                       relaxation_theory_limit=limit, temperature=T)
    a = rho_out.data
    b = rho_in.data
    cx.check_div_obligations("finite")
    cx.prove_eq("same_state", a, b, tol=1e-6)
    # and the Hamiltonian is back in its original representation
    cx.prove_eq("H_restored", ham._data, H)


@harness("C14", "opensystem_thermal_rdm",
         quick=[dict(N=2)], thorough=[dict(N=2), dict(N=3)],
         functions=[F_OS + ":OpenSystem.get_thermal_ReducedDensityMatrix",
                    "quantarhei/core/managers.py:eigenbasis_of.__enter__",
                    "quantarhei/core/managers.py:eigenbasis_of.__exit__"],
         bound="N=2 (thorough 3) level system; Hamiltonian given by its eigen-decomposition (eigenvalues in "
               "[0,4] rad/fs ascending, any rotation); T>=0 symbolic; IEEE exp under/overflow modelled",
         out="")
def opensystem_thermal_rdm(cx, N):
    import types
    import quantarhei as qr
    from quantarhei.builders.opensystem import OpenSystem
    if cx.sym:
        from symnum.core import ENGINE
        ENGINE.exp_underflow = True
    T = cx.real("T", 0.0, 400.0)
    cx.assume(T >= 0, "temperature >= 0 K")
    H, w, S = spectral_hamiltonian(cx, N)
    for i in range(N):
        cx.assume(w[i] >= 0, "eigenvalues within [0, %g] rad/fs" % EMAX)
        cx.assume(w[i] <= EMAX)
    with cx.concrete():
        ham = qr.Hamiltonian(data=numpy.diag(numpy.arange(N, dtype=float)))
    ham._data = H.copy()
    me = types.SimpleNamespace(get_Hamiltonian=lambda: ham, get_temperature=lambda: T)
    try:
        rdm = OpenSystem.get_thermal_ReducedDensityMatrix(me)
    except Exception as e:
        if cx.sym:
            raise
        cx.fail("finite", "get_thermal_ReducedDensityMatrix raised %s: %s" % (type(e).__name__, e))
        return
    data = rdm.data
    if cx.sym:
        cx.check_div_obligations("finite")
    else:
        ok = bool(numpy.all(numpy.isfinite(data)))
        cx.prove("finite", ok)
        if not ok:
            return
    cx.prove_eq("hermitian", data, numpy.conj(data.T))
    cx.prove_eq("trace", numpy.trace(data), 1)
    cx.prove_eq("H_restored", ham._data, H)


@harness("C14", "units_context_independence",
         quick=[dict(what="aggregate_strong", units="1/cm"), dict(what="opensystem", units="1/cm"),
                dict(what="aggregate_thermal", units="eV")],
         thorough=[dict(what=w_, units=u) for w_ in ("aggregate_strong", "aggregate_thermal", "aggregate_weak", "opensystem")
                   for u in ("1/cm", "eV", "THz")],
         functions=[F_AB + ":AggregateBase.get_DensityMatrix", F_AB + ":AggregateBase._thermal_population",
                    "quantarhei/builders/opensystem.py:OpenSystem.get_thermal_ReducedDensityMatrix"],
         bound="dimer aggregate (symbolic single-exciton Hamiltonian / Hamiltonian given by its eigen-decomposition), "
               "T > 0 symbolic: the thermal state, the thermal excited state (weak and strong coupling) and the "
               "OpenSystem thermal reduced density matrix requested inside an energy-units context equal the ones "
               "requested outside (the Boltzmann ratios are those of the internal energies)",
         out="")
def units_context_independence(cx, what, units):
    import types
    import quantarhei as qr
    from quantarhei.builders.opensystem import OpenSystem
    T = cx.real("T", 50.0, 400.0)
    cx.assume(T >= 50, "temperature in [50, 400] K, level spacings in [0.01, 0.2] rad/fs (no underflow, no degeneracy: "
                       "the Boltzmann factors are generic numbers)")
    cx.assume(T <= 400)

    def generic(levels):
        for a, b in zip(levels[:-1], levels[1:]):
            cx.assume(b - a >= 0.01)
            cx.assume(b - a <= 0.2)
    if what == "opensystem":
        N = 2
        H, w, S = spectral_hamiltonian(cx, N)
        generic(list(w))
        with cx.concrete():
            ham = qr.Hamiltonian(data=numpy.diag(numpy.arange(N, dtype=float)))
        ham._data = H.copy()
        me = types.SimpleNamespace(get_Hamiltonian=lambda: ham, get_temperature=lambda: T)
        call = lambda: OpenSystem.get_thermal_ReducedDensityMatrix(me).data
    else:
        agg = build_aggregate(cx, 2)
        if what == "aggregate_strong":
            Hs = _symbolic_frenkel(cx, agg, window=False)
            generic([Hs[i, i] for i in range(1, agg.HamOp.dim)])
            call = lambda: agg.get_DensityMatrix(condition_type="thermal_excited_state",
                                                 relaxation_theory_limit="strong_coupling", temperature=T)._data
        else:
            N = agg.HamOp.dim
            H, w, S = spectral_hamiltonian(cx, N, block=[[0], list(range(1, N))])
            generic(list(w))
            agg.HamOp._data = H.copy()
            cond = "thermal" if what == "aggregate_thermal" else "thermal_excited_state"
            call = lambda: agg.get_DensityMatrix(condition_type=cond, relaxation_theory_limit="weak_coupling",
                                                 temperature=T)._data
    outside = numpy.array(call()).copy()
    with qr.energy_units(units):
        inside = numpy.array(call()).copy()
    cx.assume_denominators_nonzero("partition sums > 0")
    cx.prove_eq("trace_outside", numpy.trace(outside), 1)
    cx.prove_eq("same_state_inside_units_context", inside, outside, tol=1e-9)


@harness("C14", "vibronic_aggregate_states",
         quick=[dict(cond="thermal", limit="weak_coupling"), dict(cond="thermal_excited_state", limit="weak_coupling"),
                dict(cond="thermal_excited_state", limit="strong_coupling")],
         thorough=[dict(cond=c, limit=l, nmax=n) for (c, l) in (("thermal", "weak_coupling"),
                   ("thermal_excited_state", "weak_coupling"), ("thermal_excited_state", "strong_coupling"))
                   for n in (2, 3) if not (c == "thermal" and n == 3)],   # (9 ground-band Boltzmann terms: trace unknown)
         functions=[F_AB + ":AggregateBase.get_DensityMatrix", F_AB + ":AggregateBase._thermal_population"],
         bound="uncoupled dimer of two-level molecules with one vibrational mode each (2, thorough 3, levels per "
               "electronic state) and a bath; temperature symbolic in [50, 400] K, the vibronic Hamiltonian concrete: "
               "the state is handed out (no exception), is Hermitian with unit trace and non-negative diagonal, and "
               "lives in the band it is defined on",
         out="coupled vibronic aggregates (the eigen-decomposition of the concrete 12x12 matrix would be the real "
             "LAPACK one)")
def vibronic_aggregate_states(cx, cond, limit, nmax=2):
    import quantarhei as qr
    with cx.concrete():
        ta = qr.TimeAxis(0.0, 8, 1.0)
        mols = []
        with qr.energy_units("1/cm"):
            cf = qr.CorrelationFunction(ta, dict(ftype="OverdampedBrownian", reorg=20, cortime=100, T=300))
            for i in range(2):
                m = qr.Molecule(elenergies=[0.0, 12000.0 + 100 * i])
                m.set_dipole(0, 1, [1.0, 0.0, 0.0])
                m.set_transition_environment((0, 1), cf)
                mod = qr.Mode(frequency=300.0)
                m.add_Mode(mod)
                mod.set_nmax(0, nmax)
                mod.set_nmax(1, nmax)
                mod.set_HR(1, 0.1)
                mols.append(m)
        agg = qr.Aggregate(molecules=mols)
        agg.build()
    T = cx.real("T", 50.0, 400.0)
    cx.assume(T >= 50, "temperature in [50, 400] K")
    cx.assume(T <= 400)
    try:
        rho = agg.get_DensityMatrix(condition_type=cond, relaxation_theory_limit=limit, temperature=T)
    except (IndexError, KeyError, AttributeError, ValueError) as e:
        cx.fail("state_available", "get_DensityMatrix raised %s: %s" % (type(e).__name__, str(e)[:100]))
        return
    data = rho._data
    cx.assume_denominators_nonzero("partition sum > 0")
    cx.prove_eq("hermitian", data, numpy.conj(data.T))
    cx.prove_eq("trace", numpy.trace(data), 1)
    start = 0 if cond == "thermal" else int(agg.Nb[0])
    for i in range(data.shape[0]):
        cx.prove("diagonal_nonnegative[%d]" % i, data[i, i].real >= 0)
        if i < start:
            cx.prove_eq("outside_band_empty[%d]" % i, data[i, i], 0)


@harness("C14", "relaxation_hamiltonian_option",
         quick=[dict(nmol=2)], thorough=[dict(nmol=2)],
         functions=[F_AB + ":AggregateBase.get_DensityMatrix", F_AB + ":AggregateBase._thermal_population",
                    "quantarhei/core/managers.py:eigenbasis_of.__enter__"],
         bound="dimer; the aggregate's Hamiltonian H and a separately supplied relaxation_hamiltonian G, both given by "
               "their eigen-decompositions (different rotations of the excited block), T in [50, 400] K: the weak-"
               "coupling thermal excited state is diagonal in the eigenbasis of G (the basis that defines it), with "
               "unit trace and populations in the Boltzmann ratio of G's eigenvalues",
         out="")
def relaxation_hamiltonian_option(cx, nmol):
    import quantarhei as qr
    from quantarhei.core.units import kB_intK
    agg = build_aggregate(cx, nmol)
    N = agg.HamOp.dim
    T = cx.real("T", 50.0, 400.0)
    cx.assume(T >= 50, "temperature in [50, 400] K")
    cx.assume(T <= 400)
    blk = [[0], list(range(1, N))]
    H, w, S = spectral_hamiltonian(cx, N, block=blk)
    agg.HamOp._data = H.copy()
    G, v, Sg = spectral_hamiltonian(cx, N, block=blk, tag="G")
    for a in range(1, N - 1):
        cx.assume(v[a + 1] - v[a] >= 0.01, "level spacings of G in [0.01, 0.2] rad/fs")
        cx.assume(v[a + 1] - v[a] <= 0.2)
    with cx.concrete():
        heff = qr.Hamiltonian(data=numpy.diag(numpy.arange(N, dtype=float)))
    heff._data = G.copy()
    rho = agg.get_DensityMatrix(condition_type="thermal_excited_state", relaxation_theory_limit="weak_coupling",
                                temperature=T, relaxation_hamiltonian=heff)
    data = rho._data
    cx.assume_denominators_nonzero("partition sum > 0")
    if not cx.sym:
        Sg = numpy.linalg.eigh(numpy.asarray(G, dtype=float))[1]
        v = numpy.linalg.eigh(numpy.asarray(G, dtype=float))[0]
    inG = numpy.dot(Sg.T, numpy.dot(data, Sg))
    cx.prove_eq("trace", numpy.trace(data), 1)
    for a in range(N):
        for b in range(N):
            if a != b:
                cx.prove_eq("diagonal_in_defining_basis[%d,%d]" % (a, b), inG[a, b], 0, tol=1e-7)
    cx.prove_eq("ground_state_empty", inG[0, 0], 0, tol=1e-9)
    for a in range(1, N - 1):
        boltz = numpy.exp(-(v[a + 1] - v[a]) / (kB_intK * T))
        cx.prove_eq("boltzmann_ratio[%d]" % a, inG[a + 1, a + 1], boltz * inG[a, a], tol=1e-6)
