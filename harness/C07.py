"""C07 Operator form, tensor form and exact limits of a tensor agree."""
import numpy
from vf.framework import harness
from harness.common import build_sbi, set_symmetric_hamiltonian, set_symmetric_K

D = "quantarhei/qm/liouvillespace/"
F_RED = D + "redfieldtensor.py"
F_TDR = D + "tdredfieldtensor.py"
F_SUP = D + "superoperator.py"
F_P = "quantarhei/qm/propagators/rdmpropagator.py"


def operator_tensor(cx, N, nb, symmetric_K=True):
    """a RedfieldRelaxationTensor in operator form with arbitrary K (real), Lambda (complex)"""
    from quantarhei.qm import RedfieldRelaxationTensor
    ham, sbi, time = build_sbi(cx, N, nb)
    RT = RedfieldRelaxationTensor(ham, sbi, initialize=False, as_operators=True)
    Km = numpy.empty((nb, N, N), dtype=object if cx.sym else float)
    for m in range(nb):
        Km[m] = cx.real_symmetric("K%d" % m, N) if symmetric_K else cx.real_array("K%d" % m, (N, N))
    Lm = cx.cplx_array("L", (nb, N, N))
    Ld = numpy.conj(numpy.transpose(Lm, (0, 2, 1)))
    RT._Km, RT._Lm, RT._Ld = Km.copy(), Lm.copy(), Ld.copy()
    RT._is_initialized = True
    return RT, ham, sbi, Km, Lm, Ld


def action_ref(Km, Lm, rho):
    """K rho L^+ + L rho K^+ - K^+ L rho - rho L^+ K, summed over baths"""
    out = 0
    for m in range(Km.shape[0]):
        K, L = Km[m], Lm[m]
        Kd, Ld = K.T, numpy.conj(L.T)
        out = out + (numpy.dot(K, numpy.dot(rho, Ld)) + numpy.dot(L, numpy.dot(rho, Kd))
                     - numpy.dot(numpy.dot(Kd, L), rho) - numpy.dot(rho, numpy.dot(Ld, K)))
    return out


def rotation(cx, N, plane=None):
    if cx.sym:
        from symnum import linalg, npatch
        S = linalg.givens_orthogonal(N, "S", planes=[tuple(plane)] if plane else None)
        npatch.tag_inverse(S, S.T.copy())
        return S
    S = numpy.eye(N)
    k = 0
    for i in range(N):
        for j in range(i + 1, N):
            if plane and (i, j) != tuple(plane):
                continue
            c, s_ = cx.real("S.c%d" % k, 0.3, 0.9), cx.real("S.s%d" % k, 0.3, 0.9)
            nrm = (c * c + s_ * s_) ** 0.5
            c, s_ = c / nrm, s_ / nrm
            G = numpy.eye(N)
            G[i, i] = G[j, j] = c
            G[i, j], G[j, i] = -s_, s_
            S = S @ G
            k += 1
    for i in range(N):
        S[:, i] *= (1.0 if cx.real("S.sg%d" % i) >= 0 else -1.0)
    return S


@harness("C07", "apply_forms",
         quick=[dict(N=2, nb=1), dict(N=3, nb=2)], thorough=[dict(N=2, nb=1), dict(N=3, nb=2), dict(N=4, nb=2)],
         functions=[F_RED + ":RedfieldRelaxationTensor.apply", F_SUP + ":SuperOperator.apply",
                    F_RED + ":RedfieldRelaxationTensor.convert_2_tensor",
                    F_RED + ":RedfieldRelaxationTensor._convert_operators_2_tensor", F_RED + ":_loopit",
                    F_P + ":_OTI", F_P + ":_TTI"],
         bound="N<=3, <=2 baths (thorough N=4); K real, Lambda complex, the operator acted upon complex: all arbitrary",
         out="")
def apply_forms(cx, N, nb):
    import quantarhei as qr
    from quantarhei.qm.propagators.rdmpropagator import _OTI, _TTI
    RT, ham, sbi, Km, Lm, Ld = operator_tensor(cx, N, nb, symmetric_K=False)
    X = cx.cplx_array("X", (N, N))
    with cx.concrete():
        op = qr.qm.Operator(dim=N, real=False)
    op._data = X.copy()
    ref = action_ref(Km, Lm, X)
    out_op = RT.apply(op)
    cx.prove_eq("operator_form", out_op._data, ref)
    cx.prove_eq("input_untouched", op._data, X)
    # propagation sub-steps
    dt = cx.real("dt", 0.01, 0.2)
    Kd = numpy.transpose(Km, (0, 2, 1))
    y1 = numpy.zeros((N, N), dtype=complex)
    _OTI(y1, Km, Kd, Lm, Ld, 3, dt, X)
    cx.prove_eq("OTI", y1, (dt / 3) * ref)
    RT.convert_2_tensor()
    cx.prove("converted", RT.as_operators is False)
    out_t = RT.apply(op)
    cx.prove_eq("tensor_form", out_t._data, ref)
    y2 = numpy.zeros((N, N), dtype=complex)
    _TTI(y2, RT._data, 0.0, 3, dt, X)
    cx.prove_eq("TTI", y2, (dt / 3) * ref)


@harness("C07", "forms_in_rotated_basis",
         quick=[dict(N=2, nb=1, plane=None), dict(N=2, nb=2, plane=None)],
         thorough=[dict(N=2, nb=2, plane=None), dict(N=3, nb=2, plane=None)] +
                  [dict(N=3, nb=1, plane=p) for p in ([0, 1], [0, 2], [1, 2])],
         functions=[F_RED + ":RedfieldRelaxationTensor.transform", D + "relaxationtensor.py:RelaxationTensor.transform",
                    F_RED + ":RedfieldRelaxationTensor.apply", F_RED + ":RedfieldRelaxationTensor.convert_2_tensor"],
         bound="N=2: any S in O(2); N=3: plane rotations times column signs; both forms transformed by the real "
               "transform() and compared on an arbitrary operator; also transform-then-convert vs convert-then-transform",
         out="composite rotations for N>=3")
def forms_in_rotated_basis(cx, N, nb, plane):
    import quantarhei as qr
    S = rotation(cx, N, plane)
    X = cx.cplx_array("X", (N, N))
    with cx.concrete():
        op = qr.qm.Operator(dim=N, real=False)
    op._data = X.copy()
    A, ham, sbi, Km, Lm, Ld = operator_tensor(cx, N, nb)
    B, _, _, _, _, _ = operator_tensor(cx, N, nb)          # same symbols -> same tensor
    B.convert_2_tensor()
    A.transform(S)
    B.transform(S)
    ya = A.apply(op)._data
    yb = B.apply(op)._data
    cx.prove_eq("same_action_after_transform", ya, yb)
    # reference: R' X = S^T R (S X S^T) S
    St = S.T
    ref = numpy.dot(St, numpy.dot(action_ref(Km, Lm, numpy.dot(S, numpy.dot(X, St))), S))
    cx.prove_eq("action_is_conjugated", ya, ref)
    A.convert_2_tensor()
    cx.prove_eq("transform_then_convert", A._data, B._data)


@harness("C07", "td_limits",
         quick=[dict(N=2, nb=1), dict(N=2, nb=2), dict(N=2, nb=1, cutoff=4.0), dict(N=2, nb=2, cutoff=5.0, ops=True)],
         thorough=[dict(N=2, nb=1), dict(N=2, nb=2), dict(N=3, nb=2)] +
                  [dict(N=2, nb=b, cutoff=c, ops=o) for b in (1, 2) for c in (4.0, 5.0, 6.0) for o in (False, True)],
         functions=[F_TDR + ":TDRedfieldRelaxationTensor._implementation",
                    F_RED + ":RedfieldRelaxationTensor._implementation",
                    F_RED + ":RedfieldRelaxationTensor._guts_Cmplx_Splines"],
         bound="N=2 (thorough 3), <=2 baths, 4 bath time points; H, K_m real symmetric symbolic; the running spline "
               "integral is an uninterpreted function of the integrand terms with A[0]=0 (so the time-dependent "
               "tensor's last value and the time-independent tensor are the same integral of the same integrand); with "
               "cutoff: both tensors constructed with the same cutoff_time inside the bath axis (7 points; at least 4 "
               "points up to the cut-off, as the spline needs), tensor and operator (Lambda) form",
         out="value of the integrals; agreement with the analytic pure-dephasing solution exp(-i w t - g(t))")
def td_limits(cx, N, nb, cutoff=None, ops=False):
    from quantarhei.qm import RedfieldRelaxationTensor, TDRedfieldRelaxationTensor
    ham, sbi, time = build_sbi(cx, N, nb, Nt=4 if cutoff is None else 7)
    set_symmetric_hamiltonian(cx, ham)
    set_symmetric_K(cx, sbi, N)
    if cx.sym:
        from symnum import linalg
        linalg.use_eigh(eigen_equation=False)
    kw = {} if cutoff is None else dict(cutoff_time=cutoff)
    if ops:
        TD = TDRedfieldRelaxationTensor(ham, sbi, as_operators=True, **kw)
        TI = RedfieldRelaxationTensor(ham, sbi, as_operators=True, **kw)
        Lt = numpy.asarray(TD.Lm)
        cx.prove_eq("operators_zero_at_t0", Lt[0], numpy.zeros(Lt[0].shape, dtype=int), tol=1e-9)
        cx.prove_eq("last_operators_equal_time_independent", Lt[Lt.shape[0] - 1], numpy.asarray(TI._Lm), tol=1e-7)
        return
    TD = TDRedfieldRelaxationTensor(ham, sbi, **kw)
    TI = RedfieldRelaxationTensor(ham, sbi, **kw)
    Nt = TD._data.shape[0]
    cx.prove_eq("zero_at_t0", TD._data[0], numpy.zeros(TD._data[0].shape, dtype=int), tol=1e-9)
    cx.prove_eq("last_equals_time_independent", TD._data[Nt - 1], TI._data, tol=1e-7)


@harness("C07", "propagation_forms",
         quick=[dict(N=2, L=2, Nt=2)], thorough=[dict(N=2, L=2, Nt=3), dict(N=2, L=4, Nt=2), dict(N=3, L=2, Nt=2)],
         functions=[F_P + ":ReducedDensityMatrixPropagator.__propagate_short_exp_with_relaxation",
                    F_P + ":ReducedDensityMatrixPropagator.__propagate_short_exp_with_rel_operators",
                    F_RED + ":RedfieldRelaxationTensor.convert_2_tensor"],
         bound="N=2 (thorough 3), order L<=4, <=3 stored times: the same Redfield-type tensor (arbitrary K symmetric, "
               "Lambda complex) propagated in operator form and after convert_2_tensor()",
         out="")
def propagation_forms(cx, N, L, Nt):
    import quantarhei as qr
    from quantarhei.qm import ReducedDensityMatrixPropagator
    from harness.C02 import initial_state, METHOD
    A, ham, sbi, Km, Lm, Ld = operator_tensor(cx, N, 1)
    B, _, _, _, _, _ = operator_tensor(cx, N, 1)
    B.Hamiltonian = A.Hamiltonian
    B.convert_2_tensor()
    H = cx.real_symmetric("H", N)
    ham._data = H
    with cx.concrete():
        time = qr.TimeAxis(0.0, Nt, 1.0)
    rhoi, rho0 = initial_state(cx, N)
    dt = cx.real("dt", 0.01, 0.2)
    outs = []
    for RT in (A, B):
        prop = ReducedDensityMatrixPropagator(time, ham, RTensor=RT)
        prop.Odt = dt
        prop.dt = dt
        outs.append(prop.propagate(rhoi, method=METHOD[L]).data)
    cx.prove_eq("same_dynamics", outs[0], outs[1])


@harness("C07", "td_converted_transform",
         quick=[dict(N=2, nb=1), dict(N=3, nb=1)], thorough=[dict(N=2, nb=1), dict(N=2, nb=2), dict(N=3, nb=1), dict(N=3, nb=2)],
         functions=[F_TDR + ":TDRedfieldRelaxationTensor._implementation",
                    F_TDR + ":TDRedfieldRelaxationTensor._convert_operators_2_tensor",
                    F_TDR + ":TDRedfieldRelaxationTensor.transform",
                    F_RED + ":RedfieldRelaxationTensor.convert_2_tensor"],
         bound="N=2, <=2 baths, 4 bath time points: a time-dependent Redfield tensor born in operator form and "
               "converted with convert_2_tensor() equals the tensor-born one, before and after transform(S) with an "
               "arbitrary orthogonal S",
         out="N>=3")
def td_converted_transform(cx, N, nb):
    from quantarhei.qm import TDRedfieldRelaxationTensor
    ham, sbi, time = build_sbi(cx, N, nb, Nt=4)
    set_symmetric_hamiltonian(cx, ham)
    set_symmetric_K(cx, sbi, N)
    if cx.sym:
        from symnum import linalg
        linalg.use_eigh(eigen_equation=False)
    A = TDRedfieldRelaxationTensor(ham, sbi, as_operators=True)
    B = TDRedfieldRelaxationTensor(ham, sbi, as_operators=False)
    A.convert_2_tensor()
    cx.prove_eq("converted_equals_tensor_born", A._data, B._data, tol=1e-7)
    S = rotation(cx, N)
    A.transform(S)
    B.transform(S)
    cx.prove_eq("same_after_transform", A._data, B._data, tol=1e-7)
    # the other order: the operator form is transformed first (Lambda^dagger must follow Lambda), then converted
    from quantarhei.qm import RedfieldRelaxationTensor
    if N > 2:
        return      # (the second order with a general element of O(3) takes more than the quick budget)
    for label, cls in (("td", TDRedfieldRelaxationTensor), ("ti", RedfieldRelaxationTensor)):
        C = cls(ham, sbi, as_operators=True)
        C.transform(S)
        Lm, Ld = numpy.asarray(C.Lm), numpy.asarray(C.Ld)
        cx.prove_eq("%s/Ld_is_adjoint_of_Lm_after_transform" % label, Ld,
                    numpy.conj(numpy.swapaxes(Lm, -1, -2)), tol=1e-7)
        C.convert_2_tensor()
        Bt = B if label == "td" else None
        if Bt is None:
            Bt = RedfieldRelaxationTensor(ham, sbi, as_operators=False)
            Bt.transform(S)
        cx.prove_eq("%s/transformed_then_converted_equals_tensor_born" % label, C._data, Bt._data, tol=1e-7)


@harness("C07", "td_sampling",
         quick=[dict(step=2, Nref=1), dict(step=1, Nref=1)],
         thorough=[dict(step=2, Nref=1), dict(step=1, Nref=1), dict(step=2, Nref=2), dict(step=3, Nref=1)],
         functions=[F_P + ":ReducedDensityMatrixPropagator.__propagate_short_exp_with_TD_relaxation"],
         bound="N=2, order 2, 3 stored times; bath time axis of step 1 (8 points), propagation step `step` in {1,2} "
               "(thorough 3) with refinement Nref: sub-step number q of the run uses the tensor sampled at bath index "
               "1 + q*(step/Nref), i.e. at the physical time of that sub-step; arbitrary time-dependent tensor with "
               "the C01 identities at each index",
         out="cut-off time; field-driven variants")
def td_sampling(cx, step, Nref):
    import quantarhei as qr
    from quantarhei.qm import ReducedDensityMatrixPropagator, TDRedfieldRelaxationTensor
    from harness.C02 import initial_state, taylor, tensor_gen
    from harness.common import tensor_with_identities
    N, Nt, Ntb = 2, 3, 8
    ham, sbi, tb = build_sbi(cx, N, 1, Nt=Ntb)
    H = cx.real_symmetric("H", N)
    ham._data = H
    RT = TDRedfieldRelaxationTensor(ham, sbi, initialize=False)
    data = numpy.empty((Ntb, N, N, N, N), dtype=object if cx.sym else complex)
    for t in range(Ntb):
        data[t] = tensor_with_identities(cx, N, "R%d_" % t)
    RT._data = data
    RT.Nt = Ntb
    RT._data_initialized = True
    RT.is_time_dependent = True
    with cx.concrete():
        time = qr.TimeAxis(0.0, Nt, float(step))
    rhoi, rho0 = initial_state(cx, N)
    prop = ReducedDensityMatrixPropagator(time, ham, RTensor=RT)
    pr = prop.propagate(rhoi, method="short-exp-2", Nref=Nref)
    stride = step // Nref
    dt = 1.0 * stride
    ref = rho0
    q = 0
    for i in range(1, Nt):
        for j in range(Nref):
            idx = 1 + q * stride
            ref = taylor(tensor_gen(H, data[min(idx, Ntb - 1)]), ref, dt, 2)
            q += 1
        cx.prove_eq("sampled[%d]" % i, pr.data[i], ref, tol=1e-7)


@harness("C07", "convert_in_context",
         quick=[dict(cls="redfield", N=2, nb=1), dict(cls="lindblad", N=2, nb=2)],
         thorough=[dict(cls=c, N=n, nb=b) for c in ("redfield", "lindblad") for (n, b) in ((2, 1), (2, 2))],
         functions=[F_RED + ":RedfieldRelaxationTensor.convert_2_tensor",
                    F_RED + ":RedfieldRelaxationTensor._convert_operators_2_tensor",
                    "quantarhei/core/managers.py:eigenbasis_of.__enter__", "quantarhei/core/managers.py:eigenbasis_of.__exit__"],
         bound="N=2 (N=3 did not finish in 25 minutes), <=2 bath/Lindblad operators: a tensor born in operator form whose FIRST access "
               "inside eigenbasis_of(H) (H given by its eigen-decomposition) is convert_2_tensor() equals, inside the "
               "context and after leaving it, the tensor-born twin; both act identically on an arbitrary operator",
         out="time-dependent classes (their convert_2_tensor is checked outside contexts above)")
def convert_in_context(cx, cls, N, nb):
    import quantarhei as qr
    from quantarhei.qm import RedfieldRelaxationTensor, LindbladForm
    from harness.common import spectral_hamiltonian
    ham, sbi, time = build_sbi(cx, N, nb, Nt=4)
    H, w, S = spectral_hamiltonian(cx, N)
    ham._data = H.copy()
    if cls == "redfield":
        set_symmetric_K(cx, sbi, N)
        A = RedfieldRelaxationTensor(ham, sbi, as_operators=True)
        B = RedfieldRelaxationTensor(ham, sbi, as_operators=False)
    else:
        KK = cx.real_array("Lop", (nb, N, N))
        sbi.KK = KK
        sbi.rates = [cx.real("rate%d" % k, 0.001, 0.1) for k in range(nb)]
        A = LindbladForm(ham, sbi, as_operators=True)
        B = LindbladForm(ham, sbi, as_operators=False)
    rho = cx.hermitian("X", N)
    with cx.concrete():
        op = qr.qm.ReducedDensityMatrix(dim=N)
    op._data = rho.copy()
    with qr.eigenbasis_of(ham):
        A.convert_2_tensor()
        cx.prove_eq("inside/converted_equals_tensor_born", A.data, B.data, tol=1e-7)
        cx.prove_eq("inside/same_action", numpy.tensordot(A.data, op.data), numpy.tensordot(B.data, op.data), tol=1e-7)
    cx.prove_eq("after/converted_equals_tensor_born", A._data, B._data, tol=1e-7)
    cx.prove("after/is_tensor", A.as_operators is False)
