"""C06 Rates and bath functions obey detailed balance and conserve probability."""
import types
import numpy
from vf.framework import harness
from harness.common import build_sbi, spectral_hamiltonian

D = "quantarhei/qm/liouvillespace/"
F_RR = D + "rates/redfieldrates.py"
F_PY = "quantarhei/implementations/python/redfieldrates.py"
F_FR = D + "rates/foersterrates.py"
F_SD = "quantarhei/qm/corfunctions/spectraldensities.py"
F_RT = D + "redfieldtensor.py"


def _projector_K(cx, N, nb):
    """site projectors |n><n| on the excited states (ground state = index 0 uncoupled)"""
    KK = numpy.zeros((nb, N, N))
    for n in range(nb):
        KK[n, n + 1, n + 1] = 1.0
    return cx.const_array(KK)


def _stub_bath(cx, sbi, nb, T):
    """Fourier-transformed correlation function of bath k at frequency x: an uninterpreted
    non-negative function Ct_k(x) (symbolic mode); the real object in replay mode"""
    if not cx.sym:
        return None
    import z3
    from symnum import core
    fs = [z3.Function("Ct%d" % k, z3.RealSort(), z3.RealSort()) for k in range(nb)]
    seen = []

    def mk(k):
        def at(x, approx="default"):
            x = core.lift(x)
            v = fs[k](core.z(x.re))
            key = (k, core.z(x.re).get_id())
            if key not in [s[0] for s in seen]:
                seen.append((key, v))
                core.ENGINE.assume(v >= 0, "Fourier-transformed bath correlation function >= 0 (uninterpreted)")
            return core.SymR(v)
        return types.SimpleNamespace(at=at)
    cfs = [types.SimpleNamespace(temperature=T, get_Fourier_transform=(lambda k=k: mk(k)))
           for k in range(nb)]
    sbi.CC = types.SimpleNamespace(get_correlation_function=lambda i, j: cfs[i])
    return fs


@harness("C06", "redfield_rate_matrix",
         quick=[dict(N=3)], thorough=[dict(N=3), dict(N=4)],
         functions=[F_RR + ":RedfieldRateMatrix._set_rates", F_PY + ":ssRedfieldRateMatrix"],
         bound="ground state + 2 (thorough 3) sites with site-projector system-bath operators; Hamiltonian given by "
               "its eigen-decomposition (block-diagonal rotation, ground state decoupled), T>0, the bath's "
               "Fourier-transformed correlation function an uninterpreted non-negative function of frequency; all "
               "branches of the frequency cut-off and of the uphill/downhill test explored",
         out="numerical value of the correlation function's Fourier transform (FFT/spline accuracy); the 3000 1/cm "
             "cut-off value itself")
def redfield_rate_matrix(cx, N):
    from quantarhei.qm import RedfieldRateMatrix
    from quantarhei.core.units import kB_intK
    nb = N - 1
    ham, sbi, time = build_sbi(cx, N, nb)
    H, w, S = spectral_hamiltonian(cx, N, block=[[0], list(range(1, N))])
    ham._data = H.copy()
    sbi.KK = _projector_K(cx, N, nb)
    T = cx.real("T", 100.0, 300.0)
    cx.assume(T > 0, "temperature > 0")
    if cx.sym:
        _stub_bath(cx, sbi, nb, T)
        if "golden rule structure" not in cx.notes:
            cx.note("golden rule structure: K[a,b] = sum_n (S_na S_nb)^2 * Ct_n(w_ba) with Ct_n uninterpreted")
    else:
        sbi.CC.get_correlation_function(0, 0).temperature = T
    RR = RedfieldRateMatrix(ham, sbi)
    K = RR.data
    cx.check_div_obligations("finite")
    cx.prove_eq("column_sums", numpy.sum(K, axis=0), numpy.zeros(N, dtype=int), tol=1e-9)
    for a in range(N):
        for b in range(N):
            if a != b:
                cx.prove("offdiag_nonneg[%d,%d]" % (a, b), K[a, b] >= 0 if cx.sym else K[a, b] >= -1e-12)
    for a in range(1, N):
        cx.prove_eq("ground_no_transfer[%d]" % a, numpy.array([K[0, a], K[a, 0]]), numpy.zeros(2, dtype=int), tol=1e-12)
    # detailed balance between eigenstates (w ascending): k(a<-b)/k(b<-a) = exp(-(E_a-E_b)/kT)
    for b in range(1, N):
        for a in range(b + 1, N):
            boltz = numpy.exp(-(w[a] - w[b]) / (kB_intK * T))
            cx.prove_eq("detailed_balance[%d,%d]" % (a, b), K[a, b], K[b, a] * boltz, tol=1e-6)


@harness("C06", "foerster_rate_matrix",
         quick=[dict(N=3)], thorough=[dict(N=3), dict(N=4)],
         functions=[F_FR + ":_reference_implementation"],
         bound="N<=3 (thorough 4) sites; Hamiltonian, line-shape functions symbolic; the Foerster overlap integral an "
               "arbitrary value per ordered pair (spline stub)",
         out="detailed balance of Foerster rates 'within the accuracy of the numerical integration' (numerical)")
def foerster_rate_matrix(cx, N):
    from quantarhei.qm.liouvillespace.rates.foersterrates import _reference_implementation
    H = cx.real_symmetric("H", N)
    tt = numpy.arange(4, dtype=float)
    gt = cx.cplx_array("g", (N, 4))
    ll = cx.real_array("lam", N)
    K = _reference_implementation(N, H, tt, gt, ll)
    cx.prove_eq("column_sums", numpy.sum(K, axis=0), numpy.zeros(N, dtype=int), tol=1e-9)
    cx.prove_eq("real", numpy.imag(K), numpy.zeros((N, N), dtype=int))


@harness("C06", "spectral_density",
         quick=[dict(ftype="OverdampedBrownian", Nt=3, grid="dyadic"), dict(ftype="UnderdampedBrownian", Nt=3, grid="dyadic"),
                dict(ftype="OverdampedBrownian", Nt=3, grid="fft")],
         thorough=[dict(ftype=f, Nt=n, grid="dyadic") for f in ("OverdampedBrownian", "UnderdampedBrownian")
                   for n in (3, 5)] + [dict(ftype="OverdampedBrownian", Nt=n, grid="fft") for n in (3, 4, 57)],
         functions=[F_SD + ":SpectralDensity.__init__", F_SD + ":SpectralDensity._make_overdamped_brownian",
                    F_SD + ":SpectralDensity._make_underdamped_brownian",
                    F_SD + ":SpectralDensity.get_FTCorrelationFunction"],
         bound="symmetric dyadic frequency grid of 2*Nt points (Nt=3, thorough 5); on grids produced by a time axis "
               "(Nt=3, thorough also 4 and 57) only finiteness; reorganisation energy, correlation "
               "time / damping, frequency and temperature symbolic and positive; tanh and exp uninterpreted with "
               "exp(-2x)(1+tanh x) = 1-tanh x instantiated at the grid arguments",
         out="numerical agreement of the FFT-based correlation function with (1+coth) J")
def spectral_density(cx, ftype, Nt, grid):
    import quantarhei as qr
    from quantarhei.core.units import kB_int
    with cx.concrete():
        if grid == "dyadic":
            # exactly representable symmetric grid k*h: oddness / KMS symmetry can be stated exactly
            wa = qr.FrequencyAxis(-Nt * 0.0625, 2 * Nt, 0.0625)
        else:
            # the grid a time axis produces (floats; symmetric only up to rounding): finiteness only
            wa = qr.TimeAxis(0.0, Nt, 10.0 if Nt < 10 else 1.0).get_FrequencyAxis()
    lam = cx.real("lam", 0.001, 0.01)
    T = cx.real("T", 100.0, 300.0)
    cx.assume(lam > 0, "reorganisation energy > 0")
    cx.assume(T > 0, "temperature > 0")
    if ftype == "OverdampedBrownian":
        tau = cx.real("tau", 50.0, 150.0)
        cx.assume(tau > 0, "correlation time > 0")
        params = dict(ftype=ftype, reorg=lam, cortime=tau, T=T)
    else:
        gam = cx.real("gamma", 0.005, 0.02)
        om0 = cx.real("freq", 0.05, 0.2)
        cx.assume(gam > 0, "damping > 0")
        cx.assume(om0 > 0, "oscillator frequency > 0")
        params = dict(ftype=ftype, reorg=lam, gamma=gam, freq=om0, T=T)
    sd = qr.SpectralDensity(wa, params)
    cx.check_div_obligations("finite")
    J = sd.data
    wax = sd.axis.data
    M = len(wax)
    z0 = M // 2
    if grid == "fft":
        ft = sd.get_FTCorrelationFunction(temperature=T)
        if cx.sym:
            cx.check_div_obligations("finite")
        else:
            cx.prove("finite", bool(numpy.all(numpy.isfinite(numpy.asarray(ft.data, dtype=complex)))))
        return
    cx.prove("grid_symmetric", abs(float(wax[z0])) < 1e-12 and all(
        abs(float(wax[z0 + j]) + float(wax[z0 - j])) < 1e-12 for j in range(1, z0)))
    cx.prove_eq("zero_at_origin", J[z0], 0, tol=1e-12)
    for j in range(1, z0):
        cx.prove_eq("odd[%d]" % j, J[z0 - j], -J[z0 + j], tol=1e-9)
    # C(-w) = exp(-w/kT) C(w)
    ft = sd.get_FTCorrelationFunction(temperature=T)
    cx.check_div_obligations("finite")
    C = ft.data
    for j in range(1, z0):
        wj = float(wax[z0 + j])
        boltz = numpy.exp(-wj / (kB_int * T))
        cx.prove_eq("kms[%d]" % j, C[z0 - j], boltz * C[z0 + j], tol=1e-6)


@harness("C06", "redfield_tensor_population_rates",
         quick=[dict(N=3)], thorough=[dict(N=3), dict(N=4)],
         functions=[F_RT + ":RedfieldRelaxationTensor._implementation",
                    F_RT + ":RedfieldRelaxationTensor._guts_Cmplx_Splines",
                    F_RT + ":RedfieldRelaxationTensor._convert_operators_2_tensor", F_RT + ":_loopit"],
         bound="ground + 2 (thorough 3) sites with site-projector bath operators, Hamiltonian given by its "
               "eigen-decomposition: the tensor's eigenbasis population-transfer element R[a,a,b,b] equals "
               "sum_n (S_na S_nb)^2 * 2 Re c_n(w_ab) with c_n the half-Fourier (spline) integral the code computed, "
               "i.e. the same |c_na|^2 |c_nb|^2 weights as the rate matrix; rates into/out of the ground state vanish",
         out="that 2 Re c_n(w) equals (1+coth) J_n(w) numerically")
def redfield_tensor_population_rates(cx, N):
    from quantarhei.qm import RedfieldRelaxationTensor
    nb = N - 1
    ham, sbi, time = build_sbi(cx, N, nb, Nt=4)
    H, w, S = spectral_hamiltonian(cx, N, block=[[0], list(range(1, N))])
    ham._data = H.copy()
    sbi.KK = _projector_K(cx, N, nb)
    RTt = RedfieldRelaxationTensor(ham, sbi, as_operators=False)
    RTo = RedfieldRelaxationTensor(ham, sbi, as_operators=True)
    Km, Lm = RTo._Km, RTo._Lm
    R = RTt._data
    if not cx.sym:
        S = numpy.linalg.eigh(numpy.asarray(H, dtype=float))[1]
    for a in range(N):
        for b in range(N):
            if a == b:
                continue
            ref = 0
            for n in range(nb):
                cx.prove_eq("projector_weight[%d,%d,%d]" % (n, a, b), Km[n, a, b] * Km[n, a, b],
                            (S[n + 1, a] * S[n + 1, b]) ** 2, tol=1e-9)
                ref = ref + 2 * Km[n, a, b] * numpy.real(Lm[n, a, b])
            cx.prove_eq("population_rate[%d,%d]" % (a, b), R[a, a, b, b], ref, tol=1e-9)
            if a == 0 or b == 0:
                cx.prove_eq("ground_isolated[%d,%d]" % (a, b), R[a, a, b, b], 0, tol=1e-12)
