"""C06 Rates and bath functions obey detailed balance and conserve probability."""
import types
import numpy
from vf.framework import harness
from harness.common import build_sbi, spectral_hamiltonian

D = "quantarhei/qm/liouvillespace/"
F_RR = D + "rates/redfieldrates.py"
F_PY = "quantarhei/implementations/python/redfieldrates.py"
F_FR = D + "rates/foersterrates.py"
F_SD = "quantarhei/qm/corfunctions/spectraldensities.py"
F_RT = D + "redfieldtensor.py"


def _projector_K(cx, N, nb):
    """site projectors |n><n| on the excited states (ground state = index 0 uncoupled)"""
    KK = numpy.zeros((nb, N, N))
    for n in range(nb):
        KK[n, n + 1, n + 1] = 1.0
    return cx.const_array(KK)


def _stub_bath(cx, sbi, nb, T):
    """Fourier-transformed correlation function of bath k at frequency x: an uninterpreted
    non-negative function Ct_k(x) (symbolic mode); the real object in replay mode"""
    if not cx.sym:
        return None
    import z3
    from symnum import core
    fs = [z3.Function("Ct%d" % k, z3.RealSort(), z3.RealSort()) for k in range(nb)]
    seen = []

    def mk(k):
        def at(x, approx="default"):
            x = core.lift(x)
            v = fs[k](core.z(x.re))
            key = (k, core.z(x.re).get_id())
            if key not in [s[0] for s in seen]:
                seen.append((key, v))
                core.ENGINE.assume(v >= 0, "Fourier-transformed bath correlation function >= 0 (uninterpreted)")
            return core.SymR(v)
        return types.SimpleNamespace(at=at)
    cfs = [types.SimpleNamespace(temperature=T, get_Fourier_transform=(lambda k=k: mk(k)))
           for k in range(nb)]
    sbi.CC = types.SimpleNamespace(get_correlation_function=lambda i, j: cfs[i])
    return fs


@harness("C06", "redfield_rate_matrix",
         quick=[dict(N=3), dict(N=4, w=[0.0, 1.0, 1.125, 1.3125], angles=[0.5, 0.9, 0.3])],
         thorough=[dict(N=3), dict(N=4, w=[0.0, 1.0, 1.125, 1.3125], angles=[0.5, 0.9, 0.3]),
                   dict(N=4, w=[0.0, 1.0, 1.0625, 1.09375], angles=[1.1, 0.2, 0.7]),
                   dict(N=5, w=[0.0, 1.0, 1.0625, 1.09375, 1.25], angles=[1.1, 0.2, 0.7, 0.4, 1.3, 0.6])],
         functions=[F_RR + ":RedfieldRateMatrix._set_rates", F_PY + ":ssRedfieldRateMatrix"],
         bound="ground state + 2 sites (3 sites: the branch combinations of the cut-off and uphill tests exceed the time budget) with site-projector system-bath operators; Hamiltonian given by "
               "its eigen-decomposition (block-diagonal rotation, ground state decoupled), T>0, the bath's "
               "Fourier-transformed correlation function an uninterpreted non-negative function of frequency; all "
               "branches of the frequency cut-off and of the uphill/downhill test explored",
         out="numerical value of the correlation function's Fourier transform (FFT/spline accuracy); the 3000 1/cm "
             "cut-off value itself; more than two excited states with a symbolic Hamiltonian (the code's own test "
             "'rate < 0' then needs a sum-of-squares argument per element): the instances with w=..., angles=... "
             "have three or four excited states with a CONCRETE Hamiltonian (non-symmetric squared eigenvector "
             "matrix) and quantify over the bath functions and the temperature only")
def redfield_rate_matrix(cx, N, w=None, angles=None):
    from quantarhei.qm import RedfieldRateMatrix
    from quantarhei.core.units import kB_intK
    nb = N - 1
    ham, sbi, time = build_sbi(cx, N, nb)
    if angles is not None:
        # concrete Hamiltonian from given exciton energies and a product of plane rotations in the excited block
        with cx.concrete():
            Sc = numpy.eye(N)
            k = 0
            for i in range(1, N):
                for j in range(i + 1, N):
                    G = numpy.eye(N)
                    G[i, i] = G[j, j] = numpy.cos(angles[k])
                    G[i, j], G[j, i] = -numpy.sin(angles[k]), numpy.sin(angles[k])
                    Sc = Sc @ G
                    k += 1
            Hc = (Sc * numpy.array(w)[None, :]) @ Sc.T
            Hc = (Hc + Hc.T) / 2
            w, S = numpy.linalg.eigh(Hc)
        H = Hc
        ham._data = Hc.copy()
    else:
        H, w, S = spectral_hamiltonian(cx, N, block=[[0], list(range(1, N))], w_values=w)
        ham._data = H.copy()
    sbi.KK = _projector_K(cx, N, nb)
    T = cx.real("T", 100.0, 300.0)
    cx.assume(T > 0, "temperature > 0")
    fs = None
    if cx.sym:
        fs = _stub_bath(cx, sbi, nb, T)
        if "golden rule structure" not in cx.notes:
            cx.note("golden rule structure: K[a,b] = sum_n (S_na S_nb)^2 * Ct_n(w_ba) with Ct_n uninterpreted")
    else:
        sbi.CC.get_correlation_function(0, 0).temperature = T
    KK0 = numpy.array(sbi.KK).copy()
    RR = RedfieldRateMatrix(ham, sbi)
    K = RR.data
    cx.check_div_obligations("finite")
    # the system-bath operators handed in are not modified, so a second calculation gives the same rates
    cx.prove_eq("bath_operators_unchanged", sbi.KK, KK0)
    if N == 3:
        K2 = RedfieldRateMatrix(ham, sbi).data
        cx.check_div_obligations("finite")
        cx.prove_eq("second_calculation_same_rates", K2, K, tol=1e-9)
    cx.prove_eq("column_sums", numpy.sum(K, axis=0), numpy.zeros(N, dtype=int), tol=1e-9)
    for a in range(N):
        for b in range(N):
            if a != b:
                cx.prove("offdiag_nonneg[%d,%d]" % (a, b), K[a, b] >= 0 if cx.sym else K[a, b] >= -1e-12)
    for a in range(1, N):
        cx.prove_eq("ground_no_transfer[%d]" % a, numpy.array([K[0, a], K[a, 0]]), numpy.zeros(2, dtype=int), tol=1e-12)
    # detailed balance between eigenstates (w ascending): k(a<-b)/k(b<-a) = exp(-(E_a-E_b)/kT)
    for b in range(1, N):
        for a in range(b + 1, N):
            boltz = numpy.exp(-(w[a] - w[b]) / (kB_intK * T))
            cx.prove_eq("detailed_balance[%d,%d]" % (a, b), K[a, b], K[b, a] * boltz, tol=1e-6)
    # golden-rule structure of the downhill rates: k(a<-b) = sum_n |c_na|^2 |c_nb|^2 Ct_n(w_b - w_a), a below b
    Sf = None
    if not cx.sym or angles is not None:
        with cx.concrete():
            Sf = numpy.linalg.eigh(numpy.asarray(H, dtype=float))[1]
    if not cx.sym:
        ft = [sbi.CC.get_correlation_function(n, n).get_Fourier_transform() for n in range(nb)]
    from symnum import core
    from quantarhei.core.units import cm2int
    for b in range(2, N):
        for a in range(1, b):
            ref = 0
            if numpy.abs(w[b] - w[a]) > 3000.0 * cm2int:
                # beyond the (documented, hard-wired) frequency cut-off the rate is set to zero
                cx.prove_eq("beyond_cutoff_zero[%d<-%d]" % (a, b), K[a, b], 0, tol=1e-12)
                continue
            for n in range(nb):
                if cx.sym:
                    import z3
                    om = core.lift(w[b] - w[a])
                    ct = core.SymR(fs[n](core.z(om.re)))
                    Sm = Sf if Sf is not None else S
                    ref = ref + (Sm[n + 1, a] * Sm[n + 1, b]) ** 2 * ct
                else:
                    ref = ref + (Sf[n + 1, a] * Sf[n + 1, b]) ** 2 * numpy.real(ft[n].at(w[b] - w[a], approx="spline"))
            if angles is None:
                cx.prove_eq("golden_rule_weights[%d<-%d]" % (a, b), K[a, b], ref, tol=1e-6)
            else:
                # concrete eigenvectors come from LAPACK in floats (S^-1 is not exactly S^T): the weights agree to
                # rounding, so the difference is bounded by 1e-9 times the sum of the (non-negative) bath values
                tot = 0
                for n in range(nb):
                    if cx.sym:
                        tot = tot + core.SymR(fs[n](core.z((core.lift(w[b] - w[a])).re)))
                    else:
                        tot = tot + abs(numpy.real(ft[n].at(w[b] - w[a], approx="spline")))
                diff = K[a, b] - ref
                cx.prove("golden_rule_weights[%d<-%d]" % (a, b),
                         (diff <= 1e-9 * tot) & (-diff <= 1e-9 * tot) if cx.sym else
                         abs(diff) <= 1e-9 * tot + 1e-15)


@harness("C06", "foerster_rate_matrix",
         quick=[dict(N=3)], thorough=[dict(N=3), dict(N=4)],
         functions=[F_FR + ":_reference_implementation"],
         bound="N<=3 (thorough 4) sites; Hamiltonian, line-shape functions symbolic; the Foerster overlap integral an "
               "arbitrary value per ordered pair (spline stub)",
         out="detailed balance of Foerster rates 'within the accuracy of the numerical integration' (numerical)")
def foerster_rate_matrix(cx, N):
    from quantarhei.qm.liouvillespace.rates.foersterrates import _reference_implementation
    H = cx.real_symmetric("H", N)
    tt = numpy.arange(4, dtype=float)
    gt = cx.cplx_array("g", (N, 4))
    ll = cx.real_array("lam", N)
    K = _reference_implementation(N, H, tt, gt, ll)
    cx.prove_eq("column_sums", numpy.sum(K, axis=0), numpy.zeros(N, dtype=int), tol=1e-9)
    cx.prove_eq("real", numpy.imag(K), numpy.zeros((N, N), dtype=int))


def _foerster_overlap(tt, g_acc, g_don, e_acc, e_don, lam_don):
    """2 Re int_0^t A_acc(s) conj F_don(s) ds with A(s) = exp(-i e s - g(s)) the absorption and
    F(s) = exp(-i (e - 2 lam) s - conj g(s)) the (Stokes-shifted) fluorescence response, integrated by
    the same spline quadrature (stubbed in symbolic mode) the code uses; returns the whole primitive"""
    import scipy.interpolate as interp
    prod = numpy.exp(-g_acc - g_don + 1j * ((e_don - e_acc) - 2.0 * lam_don) * tt)
    splr = interp.UnivariateSpline(tt, numpy.real(prod), s=0).antiderivative()(tt)
    spli = interp.UnivariateSpline(tt, numpy.imag(prod), s=0).antiderivative()(tt)
    return 2.0 * numpy.real(splr + 1j * spli)


@harness("C06", "foerster_golden_rule",
         quick=[dict(N=3, td=False), dict(N=3, td=True), dict(N=3, td="class")],
         thorough=[dict(N=n, td=t) for n in (3, 4) for t in (False, True)] + [dict(N=3, td="class"), dict(N=4, td="class")],
         functions=[F_FR + ":_reference_implementation", F_FR + ":_fintegral", F_FR + ":FoersterRateMatrix.initialize",
                    D + "tdfoerstertensor.py:_td_reference_implementation", D + "tdfoerstertensor.py:_td_fintegral"],
         bound="N<=3 (thorough 4) sites with different line-shape functions and reorganisation energies (symbolic), "
               "4 time points; the quadrature is the spline stub (uninterpreted, congruent): K[a,b] = J_ab^2 * 2 Re "
               "int A_a(t) conj F_b(t) dt with the DONOR's (b) Stokes shift 2 lambda_b and the acceptor's (a) "
               "absorption, at the last time (rate matrix) and at every time (time-dependent rates); 'class': "
               "FoersterRateMatrix on a real system-bath interaction with a different bath on every site takes "
               "g_n and lambda_n of the right site",
         out="the value of the overlap integral; that this form implies detailed balance with respect to "
             "E_n - lambda_n is the textbook consequence (KMS relation of g), not re-derived by the solver")
def foerster_golden_rule(cx, N, td):
    from quantarhei.qm.liouvillespace.rates import foersterrates
    from quantarhei.qm.liouvillespace import tdfoerstertensor
    if td == "class":
        import quantarhei as qr
        from quantarhei.qm.corfunctions.correlationfunctions import c2g
        from harness.common import build_aggregate
        nmol = N - 1
        reorgs = [20 + 15 * i for i in range(nmol)]
        agg = build_aggregate(cx, nmol, Nt=4, reorgs=reorgs)
        sbi = agg.get_SystemBathInteraction()
        ham = agg.get_Hamiltonian()
        H = cx.real_symmetric("H", N)
        for a in range(1, N):       # the electronic ground state is not coupled to the excited band
            H[0, a] = H[a, 0] = 0 * H[0, a]
        ham._data = H.copy()
        with cx.concrete():
            tt = numpy.array(sbi.TimeAxis.data)
            gt = [None] + [numpy.array(c2g(sbi.TimeAxis, sbi.CC.get_coft(i, i))) for i in range(nmol)]
            with qr.energy_units("1/cm"):
                ll = [0.0] + [float(qr.Manager().convert_energy_2_internal_u(r)) for r in reorgs]
        K = foersterrates.FoersterRateMatrix(ham, sbi).data
        for a in range(1, N):
            for b in range(1, N):
                if a != b:
                    ref = H[a, b] ** 2 * _foerster_overlap(tt, gt[a], gt[b], H[a, a], H[b, b], ll[b])[-1]
                    cx.prove_eq("rate_is_overlap_of_right_sites[%d<-%d]" % (a, b), K[a, b], ref, tol=1e-6)
        for a in range(N):
            cx.prove_eq("ground_state_isolated[%d]" % a, [K[0, a], K[a, 0]] if a else [K[0, 0]],
                        [0, 0] if a else [0], tol=1e-12)
        return
    H = cx.real_symmetric("H", N)
    tt = numpy.arange(4, dtype=float)
    gt = cx.cplx_array("g", (N, 4))
    ll = cx.real_array("lam", N)
    if td:
        K = tdfoerstertensor._td_reference_implementation(N, 4, H, tt, gt, ll, tdfoerstertensor._td_fintegral)
    else:
        K = foersterrates._reference_implementation(N, H, tt, gt, ll)
    for a in range(N):
        for b in range(N):
            if a == b:
                continue
            ov = _foerster_overlap(tt, gt[a, :], gt[b, :], H[a, a], H[b, b], ll[b])
            if td:
                cx.prove_eq("td_rate_is_donor_shifted_overlap[%d<-%d]" % (a, b), K[:, a, b], H[a, b] ** 2 * ov,
                            tol=1e-9)
            else:
                cx.prove_eq("rate_is_donor_shifted_overlap[%d<-%d]" % (a, b), K[a, b], H[a, b] ** 2 * ov[-1],
                            tol=1e-9)


@harness("C06", "spectral_density",
         quick=[dict(ftype="OverdampedBrownian", Nt=3, grid="dyadic"), dict(ftype="UnderdampedBrownian", Nt=3, grid="dyadic"),
                dict(ftype="OverdampedBrownian", Nt=3, grid="fft"), dict(ftype="OverdampedBrownian", Nt=2, grid="offset"),
                dict(ftype="UnderdampedBrownian", Nt=2, grid="offset"),
                dict(ftype="OverdampedBrownian", Nt=3, grid="dyadic", units="1/cm")],
         thorough=[dict(ftype=f, Nt=n, grid="dyadic") for f in ("OverdampedBrownian", "UnderdampedBrownian")
                   for n in (3, 5)] + [dict(ftype="OverdampedBrownian", Nt=n, grid="fft") for n in (3, 4, 57)] +
                  [dict(ftype=f, Nt=n, grid="offset") for f in ("OverdampedBrownian", "UnderdampedBrownian")
                   for n in (2, 4)] +
                  [dict(ftype=f, Nt=3, grid="dyadic", units=u) for f in ("OverdampedBrownian", "UnderdampedBrownian")
                   for u in ("1/cm", "eV")],
         functions=[F_SD + ":SpectralDensity.__init__", F_SD + ":SpectralDensity._make_overdamped_brownian",
                    F_SD + ":SpectralDensity._make_underdamped_brownian",
                    F_SD + ":SpectralDensity.get_FTCorrelationFunction"],
         bound="with units=u the Fourier-transformed correlation function is requested inside energy_units(u); "
               "symmetric dyadic frequency grid of 2*Nt points (Nt=3, thorough 5) containing the origin, and a "
               "half-step offset one that misses it (the other branch of get_FTCorrelationFunction); on both also "
               "C(w) tanh(w/2kT) = (1 + tanh(w/2kT)) J(w); on grids produced by a time axis "
               "(Nt=3, thorough also 4 and 57) only finiteness; reorganisation energy, correlation "
               "time / damping, frequency and temperature symbolic and positive; tanh and exp uninterpreted with "
               "exp(-2x)(1+tanh x) = 1-tanh x instantiated at the grid arguments",
         out="numerical agreement of the FFT-based correlation function with (1+coth) J")
def spectral_density(cx, ftype, Nt, grid, units=None):
    import contextlib
    import quantarhei as qr
    in_units = (lambda: qr.energy_units(units)) if units else contextlib.nullcontext
    from quantarhei.core.units import kB_int
    with cx.concrete():
        if grid == "dyadic":
            # exactly representable symmetric grid k*h: oddness / KMS symmetry can be stated exactly
            wa = qr.FrequencyAxis(-Nt * 0.0625, 2 * Nt, 0.0625)
        elif grid == "offset":
            # symmetric grid (k+1/2)*h that does not contain the origin
            wa = qr.FrequencyAxis(-(Nt - 0.5) * 0.0625, 2 * Nt, 0.0625)
        else:
            # the grid a time axis produces (floats; symmetric only up to rounding): finiteness only
            wa = qr.TimeAxis(0.0, Nt, 10.0 if Nt < 10 else 1.0).get_FrequencyAxis()
    lam = cx.real("lam", 0.001, 0.01)
    T = cx.real("T", 100.0, 300.0)
    cx.assume(lam > 0, "reorganisation energy > 0")
    cx.assume(T > 0, "temperature > 0")
    if ftype == "OverdampedBrownian":
        tau = cx.real("tau", 50.0, 150.0)
        cx.assume(tau > 0, "correlation time > 0")
        params = dict(ftype=ftype, reorg=lam, cortime=tau, T=T)
    else:
        gam = cx.real("gamma", 0.005, 0.02)
        om0 = cx.real("freq", 0.05, 0.2)
        cx.assume(gam > 0, "damping > 0")
        cx.assume(om0 > 0, "oscillator frequency > 0")
        params = dict(ftype=ftype, reorg=lam, gamma=gam, freq=om0, T=T)
    sd = qr.SpectralDensity(wa, params)
    cx.check_div_obligations("finite")
    J = sd.data
    wax = sd.axis.data
    M = len(wax)
    z0 = M // 2
    if grid == "fft":
        ft = sd.get_FTCorrelationFunction(temperature=T)
        if cx.sym:
            cx.check_div_obligations("finite")
        else:
            cx.prove("finite", bool(numpy.all(numpy.isfinite(numpy.asarray(ft.data, dtype=complex)))))
        return
    if grid == "offset":
        cx.prove("grid_symmetric", all(abs(float(wax[i]) + float(wax[M - 1 - i])) < 1e-12 for i in range(M)))
        for i in range(z0, M):
            cx.prove_eq("odd[%d]" % i, J[M - 1 - i], -J[i], tol=1e-9)
        ft = sd.get_FTCorrelationFunction(temperature=T)
        cx.check_div_obligations("finite")
        C = ft.data
        for i in range(z0, M):
            wi = float(wax[i])
            boltz = numpy.exp(-wi / (kB_int * T))
            cx.prove_eq("kms[%d]" % i, C[M - 1 - i], boltz * C[i], tol=1e-6)
        for i in range(M):
            th = numpy.tanh(wax[i] / (2.0 * kB_int * T))
            cx.prove_eq("bose_factor[%d]" % i, C[i] * th, (1.0 + th) * J[i], tol=1e-9)
        return
    cx.prove("grid_symmetric", abs(float(wax[z0])) < 1e-12 and all(
        abs(float(wax[z0 + j]) + float(wax[z0 - j])) < 1e-12 for j in range(1, z0)))
    cx.prove_eq("zero_at_origin", J[z0], 0, tol=1e-12)
    for j in range(1, z0):
        cx.prove_eq("odd[%d]" % j, J[z0 - j], -J[z0 + j], tol=1e-9)
    # C(-w) = exp(-w/kT) C(w)
    with in_units():
        ft = sd.get_FTCorrelationFunction(temperature=T)
    cx.check_div_obligations("finite")
    C = ft.data
    for j in range(1, z0):
        wj = float(wax[z0 + j])
        boltz = numpy.exp(-wj / (kB_int * T))
        cx.prove_eq("kms[%d]" % j, C[z0 - j], boltz * C[z0 + j], tol=1e-6)
    for i in range(M):
        if i != z0:
            th = numpy.tanh(wax[i] / (2.0 * kB_int * T))
            cx.prove_eq("bose_factor[%d]" % i, C[i] * th, (1.0 + th) * J[i], tol=1e-9)


@harness("C06", "redfield_tensor_population_rates",
         quick=[dict(N=3)], thorough=[dict(N=3), dict(N=4)],
         functions=[F_RT + ":RedfieldRelaxationTensor._implementation",
                    F_RT + ":RedfieldRelaxationTensor._guts_Cmplx_Splines",
                    F_RT + ":RedfieldRelaxationTensor._convert_operators_2_tensor", F_RT + ":_loopit"],
         bound="ground + 2 (thorough 3) sites with site-projector bath operators, Hamiltonian given by its "
               "eigen-decomposition: the tensor's eigenbasis population-transfer element R[a,a,b,b] equals "
               "sum_n (S_na S_nb)^2 * 2 Re c_n(w_ab) with c_n the half-Fourier (spline) integral the code computed, "
               "i.e. the same |c_na|^2 |c_nb|^2 weights as the rate matrix; rates into/out of the ground state vanish",
         out="that 2 Re c_n(w) equals (1+coth) J_n(w) numerically")
def redfield_tensor_population_rates(cx, N):
    from quantarhei.qm import RedfieldRelaxationTensor
    nb = N - 1
    ham, sbi, time = build_sbi(cx, N, nb, Nt=4)
    H, w, S = spectral_hamiltonian(cx, N, block=[[0], list(range(1, N))])
    ham._data = H.copy()
    sbi.KK = _projector_K(cx, N, nb)
    RTt = RedfieldRelaxationTensor(ham, sbi, as_operators=False)
    RTo = RedfieldRelaxationTensor(ham, sbi, as_operators=True)
    Km, Lm = RTo._Km, RTo._Lm
    R = RTt._data
    if not cx.sym:
        S = numpy.linalg.eigh(numpy.asarray(H, dtype=float))[1]
    for a in range(N):
        for b in range(N):
            if a == b:
                continue
            ref = 0
            for n in range(nb):
                cx.prove_eq("projector_weight[%d,%d,%d]" % (n, a, b), Km[n, a, b] * Km[n, a, b],
                            (S[n + 1, a] * S[n + 1, b]) ** 2, tol=1e-9)
                ref = ref + 2 * Km[n, a, b] * numpy.real(Lm[n, a, b])
            cx.prove_eq("population_rate[%d,%d]" % (a, b), R[a, a, b, b], ref, tol=1e-9)
            if a == 0 or b == 0:
                cx.prove_eq("ground_isolated[%d,%d]" % (a, b), R[a, a, b, b], 0, tol=1e-12)
