"""C04 Basis-change contexts are transparent and self-restoring.

Bounded programs over {enter(op), leave, read, write, create, protect/unprotect, apply tensor,
raise} with well-nested contexts are interpreted on the real quantarhei objects next to a
reference semantics kept by the harness: every object has a site-basis value; inside a stack
of contexts with transformation matrices S_1..S_k its representation must be
S^T X S with S = S_1...S_k.  All matrices are symbolic.
"""
import numpy
from vf.framework import harness
from harness.common import spectral_hamiltonian, spectral_hermitian, tensor_with_identities

F_M = "quantarhei/core/managers.py"
F_T = "quantarhei/utils/types.py"
FUNCS = [F_M + ":eigenbasis_of.__enter__", F_M + ":eigenbasis_of.__exit__", F_M + ":Manager.set_new_basis",
         F_M + ":Manager.transform_to_current_basis", F_M + ":Manager.register_with_basis",
         F_T + ":basis_managed_array_property", F_T + ":managed_array_property",
         "quantarhei/qm/hilbertspace/operators.py:Operator.transform",
         "quantarhei/qm/hilbertspace/operators.py:SelfAdjointOperator.get_diagonalization_matrix",
         "quantarhei/qm/liouvillespace/relaxationtensor.py:RelaxationTensor.transform",
         "quantarhei/qm/liouvillespace/superoperator.py:SuperOperator.transform",
         "quantarhei/qm/propagators/dmevolution.py:DensityMatrixEvolution.transform"]


class Boom(Exception):
    pass


def manager_state(m):
    return (list(m.basis_stack), len(m.basis_transformations), sorted(m.basis_registered.keys()),
            m._in_eigenbasis_of_context, m.current_basis_operator)


def rep(S_stack, X):
    """representation of site-basis X inside the stack of transformations"""
    for S in S_stack:
        X = numpy.dot(S.T, numpy.dot(X, S))
    return X


def rep4(S_stack, R):
    """same for a 4-index tensor (superoperator): R'[abcd] = S[a'a] S[b'b] R[a'b'c'd'] S[c'c] S[d'd]"""
    for S in S_stack:
        R = numpy.einsum("ia,jb,ijkl,kc,ld->abcd", S, S, R, S, S)
    return R


def setup(cx, N, with_tensor=True):
    import quantarhei as qr
    from quantarhei.core.managers import Manager
    from quantarhei.qm.liouvillespace.relaxationtensor import RelaxationTensor
    m = Manager()
    H, w, S = spectral_hamiltonian(cx, N)
    with cx.concrete():
        ham = qr.Hamiltonian(data=numpy.diag(numpy.arange(N, dtype=float)))
        rho = qr.ReducedDensityMatrix(dim=N)
        A = qr.qm.Operator(dim=N, real=False)
    ham._data = H.copy()
    rho0 = cx.hermitian("rho", N)
    rho._data = rho0.copy()
    A0 = cx.cplx_array("A", (N, N))
    A._data = A0.copy()
    objs = dict(H=(ham, H), rho=(rho, rho0), A=(A, A0))
    if with_tensor:
        R0 = tensor_with_identities(cx, N)
        RT = RelaxationTensor()
        RT.dim = N
        RT._data = R0.copy()
        RT._data_initialized = True
        objs["R"] = (RT, R0)
    return m, objs, (H, w, S)


def check_restored(cx, label, m, st0, objs):
    st1 = manager_state(m)
    cx.prove(label + "/basis_stack", st1[0] == st0[0] == [0])
    cx.prove(label + "/transformations", st1[1] == st0[1] == 1)
    cx.prove(label + "/registered", st1[2] == st0[2] == [])
    cx.prove(label + "/in_context_flag", st1[3] is False)
    cx.prove(label + "/basis_operator", st1[4] is None)
    for name, (obj, site) in objs.items():
        cx.prove_eq(label + "/restored_%s" % name, obj._data, site, tol=1e-7)
        cx.prove(label + "/basis_id_%s" % name, obj.get_current_basis() == 0)


@harness("C04", "single_context",
         quick=[dict(N=2, exc=False), dict(N=2, exc=True)],
         thorough=[dict(N=n, exc=e) for n in (2, 3) for e in (False, True)],
         functions=FUNCS,
         bound="one context of a Hamiltonian given by its eigen-decomposition (N=2: any rotation; N=3: products of "
               "three Givens rotations); density matrix Hermitian, operator complex, relaxation tensor with the C01 "
               "identities, all symbolic; reads, a write and an object creation inside; exit normally or by exception",
         out="threads; objects that are not basis managed")
def single_context(cx, N, exc):
    import quantarhei as qr
    m, objs, (H, w, S) = setup(cx, N, with_tensor=(N == 2))
    ham, rho, A = objs["H"][0], objs["rho"][0], objs["A"][0]
    st0 = manager_state(m)
    tr_out = numpy.trace(numpy.dot(objs["A"][1], objs["rho"][1]))
    created = {}
    try:
        with qr.eigenbasis_of(ham):
            Ss = list(m.basis_transformations[1:])
            cx.prove("inside/one_level", len(Ss) == 1 and m.basis_stack == [0, 1])
            D = ham.data
            cx.prove_eq("inside/H_diagonal", D, numpy.diag(w), tol=1e-7)
            for i in range(N - 1):
                cx.prove("inside/ascending[%d]" % i, D[i, i] <= D[i + 1, i + 1])
            cx.prove_eq("inside/rho_rep", rho.data, rep(Ss, objs["rho"][1]), tol=1e-7)
            cx.prove_eq("inside/A_rep", A.data, rep(Ss, objs["A"][1]), tol=1e-7)
            cx.prove_eq("inside/trace_rho", numpy.trace(rho.data), numpy.trace(objs["rho"][1]), tol=1e-7)
            cx.prove_eq("inside/tr_A_rho", numpy.trace(numpy.dot(A.data, rho.data)), tr_out, tol=1e-7)
            if "R" in objs:
                RT, R0 = objs["R"]
                act_in = numpy.tensordot(RT.data, rho.data)
                cx.prove_eq("inside/R_rep", RT.data, rep4(Ss, R0), tol=1e-7)
                cx.prove_eq("inside/R_action", act_in, rep(Ss, numpy.tensordot(R0, objs["rho"][1])), tol=1e-7)
            # write inside: the new value is given in the current basis
            Y = cx.hermitian("Y", N)
            rho.data = Y.copy()
            Sx = Ss[0]
            objs["rho"] = (rho, numpy.dot(Sx, numpy.dot(Y, Sx.T)))
            # create inside
            Z = cx.cplx_array("Z", (N, N))
            with cx.concrete():
                B = qr.qm.Operator(dim=N, real=False)
            cx.prove("inside/created_registered", B.get_current_basis() == 1)
            B.data = Z.copy()
            created["B"] = (B, numpy.dot(Sx, numpy.dot(Z, Sx.T)))
            if exc:
                raise Boom()
    except Boom:
        pass
    objs.update(created)
    check_restored(cx, "after", m, st0, objs)


@harness("C04", "nested_same_operator",
         quick=[dict(N=2, exc_at=None, degenerate=False), dict(N=2, exc_at=2, degenerate=False),
                dict(N=2, exc_at=1, degenerate=False)],
         thorough=[dict(N=2, exc_at=e, degenerate=False) for e in (None, 1, 2)],
         functions=FUNCS,
         bound="two nested contexts of the same Hamiltonian (the inner eigen-decomposition is of the already diagonal "
               "matrix: same eigenvalues; eigenvectors are +-unit vectors for distinct eigenvalues and any rotation "
               "inside a degenerate subspace), exception at depth 1, 2 or none; N=2, non-degenerate spectra",
         out="degenerate spectra (the inner decomposition is then an arbitrary second rotation: the doubly rotated "
             "identities came back unknown after 20 minutes) and N=3 (the inverse of the composed transformation is "
             "not a tagged inverse in the eigh stub)",
         timeout=1500)
def nested_same_operator(cx, N, exc_at, degenerate):
    import quantarhei as qr
    m, objs, (H, w, S) = setup(cx, N, with_tensor=False)
    if not degenerate:
        for i in range(N - 1):
            cx.assume(w[i] < w[i + 1], "non-degenerate spectrum")
    else:
        cx.assume(w[0] == w[1], "degenerate spectrum")
    ham, rho, A = objs["H"][0], objs["rho"][0], objs["A"][0]
    st0 = manager_state(m)
    tr_out = numpy.trace(numpy.dot(objs["A"][1], objs["rho"][1]))
    try:
        with qr.eigenbasis_of(ham):
            st1 = manager_state(m)
            r1 = rho.data.copy()
            try:
                with qr.eigenbasis_of(ham):
                    Ss = list(m.basis_transformations[1:])
                    cx.prove("inner/two_levels", m.basis_stack == [0, 1, 2] and len(Ss) == 2)
                    cx.prove_eq("inner/H_diagonal", ham.data, numpy.diag(w), tol=1e-7)
                    cx.prove_eq("inner/tr_A_rho", numpy.trace(numpy.dot(A.data, rho.data)), tr_out, tol=1e-7)
                    cx.prove_eq("inner/rho_rep", rho.data, rep(Ss, objs["rho"][1]), tol=1e-7)
                    if exc_at == 2:
                        raise Boom()
            except Boom:
                pass
            st2 = manager_state(m)
            cx.prove("mid/basis_stack", st2[0] == st1[0])
            cx.prove("mid/registered", st2[2] == st1[2])
            cx.prove("mid/in_context_flag", st2[3] is True)
            cx.prove("mid/basis_operator", st2[4] is st1[4])
            cx.prove_eq("mid/rho_back", rho.data, r1, tol=1e-7)
            cx.prove_eq("mid/H_diagonal", ham.data, numpy.diag(w), tol=1e-7)
            if exc_at == 1:
                raise Boom()
    except Boom:
        pass
    check_restored(cx, "after", m, st0, objs)


@harness("C04", "nested_two_operators",
         quick=[], thorough=[dict(N=2)], timeout=1500,
         functions=FUNCS,
         bound="N=2: context of a Hamiltonian (spectral parametrisation) and, nested inside, the context of a second "
               "real symmetric operator B (eigh contract stub with B' S' = S' diag(v)); reads inside, everything "
               "restored afterwards",
         out="N=3 nested contexts of different operators (query size)")
def nested_two_operators(cx, N):
    import quantarhei as qr
    m, objs, (H, w, S) = setup(cx, N, with_tensor=False)
    ham, rho, A = objs["H"][0], objs["rho"][0], objs["A"][0]
    with cx.concrete():
        Bop = qr.qm.SelfAdjointOperator(dim=N, data=numpy.diag(numpy.arange(N, dtype=float)))
    B0 = cx.real_symmetric("B", N)
    Bop._data = B0.copy()
    objs["B"] = (Bop, B0)
    st0 = manager_state(m)
    tr_out = numpy.trace(numpy.dot(objs["A"][1], objs["rho"][1]))
    with qr.eigenbasis_of(ham):
        with qr.eigenbasis_of(Bop):
            Ss = list(m.basis_transformations[1:])
            Bd = Bop.data
            off = ~numpy.eye(N, dtype=bool)
            cx.prove_eq("inner/B_diagonal", Bd[off], numpy.zeros(int(off.sum()), dtype=int), tol=1e-7)
            cx.prove("inner/B_ascending", Bd[0, 0] <= Bd[1, 1])
            cx.prove_eq("inner/tr_A_rho", numpy.trace(numpy.dot(A.data, rho.data)), tr_out, tol=1e-7)
            cx.prove_eq("inner/H_rep", ham.data, rep(Ss, objs["H"][1]), tol=1e-7)
        cx.prove_eq("mid/H_diagonal", ham.data, numpy.diag(w), tol=1e-7)
    check_restored(cx, "after", m, st0, objs)


@harness("C04", "write_first_access",
         quick=[dict(kind=k) for k in ("Hamiltonian", "Operator", "ReducedDensityMatrix")],
         thorough=[dict(kind=k) for k in ("Hamiltonian", "Operator", "ReducedDensityMatrix", "SuperOperator")],
         functions=FUNCS,
         bound="N=2: an object built outside is WRITTEN inside eigenbasis_of(H) as its first access there; read-back "
               "inside equals the written value; after exit its site-basis value is S Y S^T; a second object that is "
               "read first and written afterwards behaves the same",
         out="")
def write_first_access(cx, kind):
    import quantarhei as qr
    from quantarhei.core.managers import Manager
    N = 2
    m = Manager()
    H, w, S = spectral_hamiltonian(cx, N)
    with cx.concrete():
        ham = qr.Hamiltonian(data=numpy.diag(numpy.arange(N, dtype=float)))
    ham._data = H.copy()

    def fresh():
        with cx.concrete():
            if kind == "Hamiltonian":
                o = qr.Hamiltonian(data=numpy.diag(numpy.arange(N, dtype=float)))
            elif kind == "Operator":
                o = qr.qm.Operator(dim=N, real=False)
            elif kind == "ReducedDensityMatrix":
                o = qr.ReducedDensityMatrix(dim=N)
            else:
                o = qr.qm.SuperOperator(dim=N)
        return o
    four = (kind == "SuperOperator")
    sym_val = (lambda nm: cx.real_symmetric(nm, N)) if kind == "Hamiltonian" else (lambda nm: cx.hermitian(nm, N))
    if four:
        from harness.common import tensor_with_identities as twi
        sym_val = lambda nm: twi(cx, N, nm)
    o1, o2 = fresh(), fresh()
    X1, X2 = sym_val("X1"), sym_val("X2")
    o1._data, o2._data = X1.copy(), X2.copy()
    Y1, Y2 = sym_val("Y1"), sym_val("Y2")
    st0 = manager_state(m)
    with qr.eigenbasis_of(ham):
        Sx = m.basis_transformations[-1]
        o1.data = Y1.copy()                    # write as first access
        cx.prove_eq("inside/readback_after_first_write", o1.data, Y1, tol=1e-7)
        _ = o2.data                            # read first ...
        o2.data = Y2.copy()                    # ... then write
        cx.prove_eq("inside/readback_after_read_write", o2.data, Y2, tol=1e-7)
    back = (lambda Y: numpy.einsum("ai,bj,ijkl,ck,dl->abcd", Sx, Sx, Y, Sx, Sx)) if four else \
        (lambda Y: numpy.dot(Sx, numpy.dot(Y, Sx.T)))
    cx.prove_eq("after/first_write_site_value", o1._data, back(Y1), tol=1e-7)
    cx.prove_eq("after/read_write_site_value", o2._data, back(Y2), tol=1e-7)
    cx.prove("after/bookkeeping", manager_state(m)[:4] == st0[:4] and o1.get_current_basis() == 0
             and o2.get_current_basis() == 0)


@harness("C04", "hermitian_context_operator",
         quick=[dict(exc=False), dict(exc=True), dict(exc=False, superop=True)], thorough=[dict(exc=False), dict(exc=True), dict(exc=False, superop=True), dict(exc=True, superop=True)],
         functions=FUNCS,
         bound="N=2: context of a COMPLEX Hermitian operator (e.g. a density matrix with complex coherences) given by "
               "its eigen-decomposition with a unitary S (Givens rotation times column phases); inside it is diagonal, "
               "tr(A rho) is invariant; everything is restored on exit (normal / exception)",
         out="N>=3 unitary families")
def hermitian_context_operator(cx, exc, superop=False):
    import quantarhei as qr
    from quantarhei.core.managers import Manager
    N = 2
    m = Manager()
    W0, w, S = spectral_hermitian(cx)
    with cx.concrete():
        W = qr.qm.SelfAdjointOperator(dim=N, data=numpy.diag(numpy.arange(N, dtype=float)))
        rho = qr.ReducedDensityMatrix(dim=N)
        A = qr.qm.Operator(dim=N, real=False)
        SO = qr.qm.SuperOperator(dim=N)
    if superop:
        R0 = cx.cplx_array("R", (N, N, N, N))
        SO._data = R0.copy()
        # a genuinely complex eigenbasis and a non-degenerate spectrum (so that every model replays with the same
        # eigenvectors up to phases)
        im = S[1, 1].imag
        cx.assume((im >= 0.2) | (im <= -0.2) if cx.sym else abs(im) >= 0.2,
                  "complex eigenvector phase: |Im S[1,1]| >= 0.2; level spacing >= 0.1")
        cx.assume(w[1] - w[0] >= 0.1)
    W._data = W0.copy()
    rho0 = cx.hermitian("rho", N)
    A0 = cx.cplx_array("A", (N, N))
    rho._data, A._data = rho0.copy(), A0.copy()
    objs = dict(W=(W, W0), rho=(rho, rho0), A=(A, A0))
    st0 = manager_state(m)
    tr_out = numpy.trace(numpy.dot(A0, rho0))
    created = {}
    try:
        with qr.eigenbasis_of(W):
            Sx = m.basis_transformations[-1]
            D = W.data
            off = ~numpy.eye(N, dtype=bool)
            cx.prove_eq("inside/W_diagonal", D, numpy.diag(w), tol=1e-7)
            cx.prove_eq("inside/tr_A_rho", numpy.trace(numpy.dot(A.data, rho.data)), tr_out, tol=1e-7)
            cx.prove_eq("inside/rho_rep", rho.data, numpy.dot(numpy.conj(Sx.T), numpy.dot(rho0, Sx)), tol=1e-7)
            if superop:
                # the action of a superoperator on a state is the transformed action
                act_site = numpy.tensordot(R0, rho0)
                act_in = numpy.tensordot(SO.data, rho.data)
                cx.prove_eq("inside/superoperator_action", act_in,
                            numpy.dot(numpy.conj(Sx.T), numpy.dot(act_site, Sx)), tol=1e-7)
            Z = cx.cplx_array("Z", (N, N))
            with cx.concrete():
                B = qr.qm.Operator(dim=N, real=False)
            B.data = Z.copy()
            created["B"] = (B, numpy.dot(Sx, numpy.dot(Z, numpy.conj(Sx.T))))
            if exc:
                raise Boom()
    except Boom:
        pass
    objs.update(created)
    check_restored(cx, "after", m, st0, objs)
    if superop:
        cx.prove_eq("after/superoperator_restored", SO._data, R0, tol=1e-7)


@harness("C04", "transform_methods",
         quick=[dict(cls=c) for c in ("Operator", "Hamiltonian", "SuperOperator4", "SuperOperatorT", "DMEvolution",
                                      "Dipole")],
         thorough=[dict(cls=c) for c in ("Operator", "Hamiltonian", "SuperOperator4", "SuperOperatorT", "DMEvolution",
                                         "Dipole", "EvolutionSuperOperator")],
         functions=["quantarhei/qm/hilbertspace/operators.py:Operator.transform",
                    "quantarhei/qm/hilbertspace/hamiltonian.py:Hamiltonian.transform",
                    "quantarhei/qm/liouvillespace/superoperator.py:SuperOperator.transform",
                    "quantarhei/qm/propagators/dmevolution.py:DensityMatrixEvolution.transform",
                    "quantarhei/qm/hilbertspace/dmoment.py:TransitionDipoleMoment.transform"],
         bound="N=2: each class's transform(S) called with an ARBITRARY orthogonal matrix S (rotation times signs; in "
               "nested contexts the composite of two eigenvector matrices is a genuine rotation), inverse through "
               "numpy.linalg.inv: the data become the conjugated ones for every time / Cartesian index",
         out="N>=3")
def transform_methods(cx, cls):
    import quantarhei as qr
    N = 2
    if cx.sym:
        from symnum import linalg, npatch
        S = linalg.givens_orthogonal(N, "S")
        npatch.tag_inverse(S, S.T.copy())
    else:
        c, s_ = cx.real("S.c0", 0.3, 0.9), cx.real("S.s0", 0.3, 0.9)
        nrm = (c * c + s_ * s_) ** 0.5
        c, s_ = c / nrm, s_ / nrm
        S = numpy.array([[c, -s_], [s_, c]])
        for i in range(N):
            S[:, i] *= (1.0 if cx.real("S.sg%d" % i) >= 0 else -1.0)
    conj2 = lambda X: numpy.dot(S.T, numpy.dot(X, S))
    conj4 = lambda R: numpy.einsum("ia,jb,ijkl,kc,ld->abcd", S, S, R, S, S)
    with cx.concrete():
        time = qr.TimeAxis(0.0, 2, 1.0)
    if cls == "Operator":
        with cx.concrete():
            o = qr.qm.Operator(dim=N, real=False)
        X = cx.cplx_array("X", (N, N))
        o._data = X.copy()
        o.transform(S)
        cx.prove_eq("conjugated", o._data, conj2(X), tol=1e-7)
    elif cls == "Hamiltonian":
        with cx.concrete():
            o = qr.Hamiltonian(data=numpy.diag(numpy.arange(N, dtype=float)))
        X = cx.real_symmetric("X", N)
        J = cx.real_symmetric("JR", N, zero_diag=True)
        o._data = X.copy()
        o.JR = J.copy()
        o._has_remainder_coupling = True
        o.transform(S)
        cx.prove_eq("conjugated", o._data, conj2(X), tol=1e-7)
        cx.prove_eq("remainder_conjugated", o.JR, conj2(J), tol=1e-7)
    elif cls in ("SuperOperator4", "SuperOperatorT", "EvolutionSuperOperator"):
        R0 = cx.cplx_array("R", (N, N, N, N))
        R1 = cx.cplx_array("Q", (N, N, N, N))
        if cls == "EvolutionSuperOperator":
            from harness.C08 import system
            from quantarhei.qm import EvolutionSuperOperator
            ham, RT, tm, H, R, step = system(cx, N, 2)
            o = EvolutionSuperOperator(tm, ham=ham, relt=RT)
        else:
            with cx.concrete():
                o = qr.qm.SuperOperator(dim=N)
        if cls == "SuperOperator4":
            o._data = R0.copy()
            o.transform(S)
            cx.prove_eq("conjugated", o._data, conj4(R0), tol=1e-7)
        else:
            o._data = numpy.array([R0, R1])
            o.transform(S)
            cx.prove_eq("conjugated[0]", o._data[0], conj4(R0), tol=1e-7)
            cx.prove_eq("conjugated[1]", o._data[1], conj4(R1), tol=1e-7)
    elif cls == "DMEvolution":
        with cx.concrete():
            rho = qr.ReducedDensityMatrix(dim=N)
            o = qr.qm.ReducedDensityMatrixEvolution(time, rho)
        X0, X1 = cx.cplx_array("X0", (N, N)), cx.cplx_array("X1", (N, N))
        o._data = numpy.array([X0, X1])
        o.transform(S)
        cx.prove_eq("conjugated[0]", o._data[0], conj2(X0), tol=1e-7)
        cx.prove_eq("conjugated[1]", o._data[1], conj2(X1), tol=1e-7)
    else:
        from quantarhei.qm.hilbertspace.dmoment import TransitionDipoleMoment
        D = cx.real_array("D", (N, N, 3))
        with cx.concrete():
            o = TransitionDipoleMoment(data=numpy.zeros((N, N, 3)))
        o._data = D.copy()
        o.transform(S)
        for k in range(3):
            cx.prove_eq("conjugated[%d]" % k, o._data[:, :, k], conj2(D[:, :, k]), tol=1e-7)


@harness("C04", "protected_inside_context",
         quick=[dict(N=2)], thorough=[dict(N=2), dict(N=3)],
         functions=FUNCS + ["quantarhei/core/managers.py:BasisManaged.protect_basis",
                            "quantarhei/core/managers.py:BasisManaged.unprotect_basis"],
         bound="N=2 (thorough 3): an operator is read inside eigenbasis_of(H), protected there (protect_basis: keep "
               "the numbers), the context is left, the protection lifted: the operator keeps the exciton-basis "
               "numbers but carries the label of the basis that is current again, can be read outside, is transformed "
               "and restored by a further context like any other object, and the manager is restored",
         out="")
def protected_inside_context(cx, N):
    import quantarhei as qr
    m, objs, (H, w, S) = setup(cx, N, with_tensor=False)
    ham, A = objs["H"][0], objs["A"][0]
    A0 = objs["A"][1]
    st0 = manager_state(m)
    with qr.eigenbasis_of(ham):
        inside = numpy.array(A.data).copy()
        cx.prove_eq("inside/A_rep", inside, rep([S], A0), tol=1e-7)
        A.protect_basis()
    A.unprotect_basis()
    cx.prove("after/label_is_current_basis", A.get_current_basis() == m.get_current_basis() == 0)
    try:
        outside = numpy.array(A.data).copy()
    except Exception as e:      # noqa: BLE001
        cx.fail("after/readable", "%s: %s" % (type(e).__name__, str(e)[:100]))
        return
    cx.prove_eq("after/protected_numbers_kept", outside, inside, tol=1e-7)
    st1 = manager_state(m)
    cx.prove("after/manager_restored", st1[0] == st0[0] == [0] and st1[1] == st0[1] and st1[3] is False)
    # a further context treats it like any other site-basis object holding these numbers
    with qr.eigenbasis_of(ham):
        again = numpy.array(A.data).copy()
        cx.prove_eq("again/transformed", again, rep([S], inside), tol=1e-7)
    cx.prove_eq("again/restored", A._data, inside, tol=1e-7)


@harness("C04", "apply_copy_inside_context",
         quick=[dict(touched=True), dict(touched=False)], thorough=[dict(touched=True), dict(touched=False)],
         functions=FUNCS + ["quantarhei/qm/liouvillespace/superoperator.py:SuperOperator.apply"],
         bound="N=2: inside eigenbasis_of(H) a superoperator is applied to a density matrix with copy=True "
               "(the density matrix already read inside the context, or not): the returned object is, after the "
               "context, readable and equal to the site-basis action; the operands are restored",
         out="N=3 (81 complex tensor elements under a symbolic O(3) rotation, there and back) did not finish in the "
             "25 min instance limit and is not part of any tier")
def apply_copy_inside_context(cx, touched, N=2):
    import quantarhei as qr
    m, objs, (H, w, S) = setup(cx, N, with_tensor=False)
    ham, rho = objs["H"][0], objs["rho"][0]
    rho0 = objs["rho"][1]
    R0 = cx.cplx_array("R", (N, N, N, N))
    with cx.concrete():
        SO = qr.qm.SuperOperator(dim=N)
    SO._data = R0.copy()
    ref = numpy.tensordot(R0, rho0)
    st0 = manager_state(m)
    with qr.eigenbasis_of(ham):
        if touched:
            _ = rho.data
        out = SO.apply(rho, copy=True)
        cx.prove_eq("inside/result_rep", out.data, rep([S], ref), tol=1e-7)
    try:
        got = numpy.array(out.data).copy()
    except Exception as e:      # noqa: BLE001
        cx.fail("after/result_readable", "%s: %s" % (type(e).__name__, str(e)[:100]))
        return
    cx.prove_eq("after/result_is_site_basis_action", got, ref, tol=1e-7)
    cx.prove_eq("after/operand_restored", rho._data, rho0, tol=1e-7)
    cx.prove_eq("after/superoperator_restored", SO._data, R0, tol=1e-7)
    st1 = manager_state(m)
    cx.prove("after/manager_restored", st1[0] == st0[0] == [0] and st1[2] == st0[2] == [])


@harness("C04", "propagated_dynamics_in_context",
         quick=[dict(kind=k) for k in ("none", "tensor", "lindblad_op", "td_tensor", "td_operators")],
         thorough=[dict(kind=k) for k in ("none", "tensor", "lindblad_op", "lindblad_tensor", "td_tensor", "td_operators")] +
                  [dict(kind="tensor", Nt=3)],
         functions=FUNCS + ["quantarhei/qm/propagators/rdmpropagator.py:ReducedDensityMatrixPropagator.propagate",
                            "quantarhei/qm/propagators/rdmpropagator.py:ReducedDensityMatrixPropagator._INIT_EXP",
                            "quantarhei/qm/propagators/rdmpropagator.py:_COM", "quantarhei/qm/propagators/rdmpropagator.py:_TTI",
                            "quantarhei/qm/propagators/rdmpropagator.py:_OTI",
                            "quantarhei/qm/liouvillespace/tdredfieldtensor.py:TDRedfieldRelaxationTensor.transform",
                            "quantarhei/qm/liouvillespace/redfieldtensor.py:RedfieldRelaxationTensor.transform"],
         bound="N=2, 2 (3) stored times, expansion order 2: the same real "
               "propagate() call outside and inside eigenbasis_of(H) (H given by its eigen-decomposition), generator: none / "
               "arbitrary tensor with the C01 identities / Lindblad form in operator and tensor representation / "
               "time-dependent tensor / time-dependent Redfield tensor in operator form (K_m real, Lambda_m(t) complex, "
               "symbolic); the evolution obtained inside is presented there in the eigenbasis and equals, after the "
               "context, the one obtained outside; Hamiltonian, initial state and generator are restored",
         out="N=3 (without relaxation it did not finish in the 25 min instance limit); higher orders and refinement "
             "(decided outside contexts by C02); field-driven propagation")
def propagated_dynamics_in_context(cx, kind, N=2, Nt=2):
    import quantarhei as qr
    from quantarhei.qm import ReducedDensityMatrixPropagator, LindbladForm, TDRedfieldRelaxationTensor
    from quantarhei.qm.liouvillespace.relaxationtensor import RelaxationTensor
    from harness.common import build_sbi
    nb = 1
    ham, sbi, time_b = build_sbi(cx, N, nb, Nt=4)
    with cx.concrete():
        time = qr.TimeAxis(0.0, Nt, 1.0)
        rhoi = qr.ReducedDensityMatrix(dim=N)
    H, w, S = spectral_hamiltonian(cx, N)
    ham._data = H.copy()
    # genericity (so that every model replays with the same eigenvectors up to signs): separated levels, and for
    # N=2 a rotation away from the identity and from the swap
    for i in range(N - 1):
        cx.assume(w[i + 1] - w[i] >= 0.1, "level spacing >= 0.1")
    if N == 2:
        s01 = S[0, 1].real if not cx.sym else S[0, 1]
        cx.assume(((s01 >= 0.3) & (s01 <= 0.9)) | ((s01 <= -0.3) & (s01 >= -0.9)) if cx.sym else 0.3 <= abs(s01) <= 0.9,
                  "0.3 <= |S[0,1]| <= 0.9")
    rho0 = cx.hermitian("rho", N)
    rhoi._data = rho0.copy()
    RT, saved = None, {}
    if kind == "tensor":
        R0 = tensor_with_identities(cx, N)
        RT = RelaxationTensor()
        RT.dim = N
        RT._data = R0.copy()
        RT._data_initialized = True
        saved = dict(_data=R0)
    elif kind in ("lindblad_op", "lindblad_tensor"):
        K = cx.real_array("K", (nb, N, N))
        sbi.KK = K
        sbi.rates = [cx.real("g%d" % m, 0.0, 0.2) for m in range(nb)]
        RT = LindbladForm(ham, sbi, as_operators=(kind == "lindblad_op"))
    elif kind == "td_tensor":
        RT = TDRedfieldRelaxationTensor(ham, sbi, initialize=False)
        Ntb = sbi.TimeAxis.length
        data = numpy.empty((Ntb, N, N, N, N), dtype=object if cx.sym else complex)
        for t in range(Ntb):
            data[t] = tensor_with_identities(cx, N, "R%d_" % t)
        RT._data = data.copy()
        RT.Nt = Ntb
        RT._data_initialized = True
        RT.is_time_dependent = True
        saved = dict(_data=data)
    elif kind == "td_operators":
        RT = TDRedfieldRelaxationTensor(ham, sbi, initialize=False, as_operators=True)
        Ntb = sbi.TimeAxis.length
        Km = cx.real_array("Km", (nb, N, N))
        Lm = cx.cplx_array("Lm", (Ntb, nb, N, N))
        Ld = numpy.empty((Ntb, nb, N, N), dtype=object if cx.sym else complex)
        for t in range(Ntb):
            for m_ in range(nb):
                Ld[t, m_] = numpy.conj(Lm[t, m_].T)
        RT.Km, RT.Lm, RT.Ld = Km.copy(), Lm.copy(), Ld.copy()
        RT.Nt = Ntb
        RT._is_initialized = True
        RT.is_time_dependent = True
        saved = dict(Km=Km, Lm=Lm, Ld=Ld)
    prop = ReducedDensityMatrixPropagator(time, ham, RTensor=RT) if RT is not None else \
        ReducedDensityMatrixPropagator(time, ham)
    if kind.startswith("td_"):
        RT.SystemBathInteraction.TimeAxis.step = 1.0
    m = qr.Manager()
    st0 = manager_state(m)
    out = prop.propagate(rhoi, method="short-exp-2")
    ref = numpy.array(out.data).copy()
    cx.prove_eq("outside/initial", ref[0], rho0, tol=1e-9)
    with qr.eigenbasis_of(ham):
        Ss = list(m.basis_transformations[1:])      # the matrix the manager actually uses (column signs are LAPACK's)
        inn = prop.propagate(rhoi, method="short-exp-2")
        for i in range(Nt):
            cx.prove_eq("inside/eigenbasis_representation[%d]" % i, inn.data[i], rep(Ss, ref[i]), tol=1e-7)
    for i in range(Nt):
        cx.prove_eq("after/same_dynamics_as_outside[%d]" % i, inn.data[i], ref[i], tol=1e-7)
    cx.prove_eq("after/hamiltonian_restored", ham._data, H, tol=1e-7)
    cx.prove_eq("after/initial_state_restored", rhoi._data, rho0, tol=1e-7)
    for name, val in saved.items():
        cx.prove_eq("after/generator_restored_%s" % name, getattr(RT, name), val, tol=1e-7)
    st1 = manager_state(m)
    cx.prove("after/manager_restored", st1[0] == st0[0] == [0] and st1[2] == st0[2] == [])
