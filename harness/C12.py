"""C12 Third-order response: exact orientational average, additivity, symmetry."""
import types
import numpy
from vf.framework import harness

F_LAB = "quantarhei/spectroscopy/labsetup.py"
F_DIA = "quantarhei/spectroscopy/diagramatics.py"

X3 = [numpy.array([1.0, 0.0, 0.0]), numpy.array([0.0, 1.0, 0.0]), numpy.array([0.0, 0.0, 1.0])]


def pathway_prefactor(cx, e, d, sides=(1, 1, 1, 1), lab=None):
    """prefactor computed by the real LabSetup and the real liouville_pathway object for pulse /
    detection polarisations e[0..3] and transition dipoles d[0..3]"""
    import quantarhei as qr
    from quantarhei.spectroscopy.diagramatics import liouville_pathway
    if lab is None:
        with cx.concrete():
            lab = qr.LabSetup()
    lab.set_pulse_polarizations(pulse_polarizations=(e[0], e[1], e[2]), detection_polarization=e[3])
    rho0 = numpy.zeros((1, 1))
    rho0[0, 0] = 1.0
    agg = types.SimpleNamespace(rho0=cx.const_array(rho0))
    with cx.concrete():
        lp = liouville_pathway("R", 0, aggregate=agg, order=3, relax_order=0)
    lp.dmoments = numpy.array(d, dtype=object if cx.sym else float)
    lp.F4n = numpy.zeros(3, dtype=float)
    lp.sides = numpy.array(sides, dtype=numpy.int16)
    lp.evolfac = 1.0
    lp.transitions[0, 1] = 0
    lp.build()
    lp.orientational_averaging(lab)
    return lp.get_prefactor()


def dots(d):
    return lambda i, j: numpy.dot(d[i], d[j])


@harness("C12", "orientational_average",
         quick=[dict()], thorough=[dict()],
         functions=[F_LAB + ":LabSetup.__init__", F_LAB + ":LabSetup.set_pulse_polarizations",
                    F_DIA + ":liouville_pathway.__init__", F_DIA + ":liouville_pathway.build",
                    F_DIA + ":liouville_pathway.orientational_averaging"],
         bound="order-3 pathways; four arbitrary real transition-dipole vectors (symbolic). The isotropic average "
               "of a rank-4 tensor lies in the span of the three pairings (invariant theory, trusted); within that "
               "span it is fixed by its three full contractions over the polarisation indices, which are decided "
               "here for all dipole vectors: sum_ij P(x_i,x_i,x_j,x_j; d) = (d1.d2)(d3.d4) and the two permutations. "
               "Also: general polarisation vectors give the bilinear form F4e.M4.F4n of the pairings",
         out="line shapes and waiting-time evolution (evolfac = 1, initial population 1)")
def orientational_average(cx):
    d = [cx.real_array("d%d" % i, 3) for i in range(4)]
    dd = dots(d)
    # three contractions of the polarisation indices (0,1,2 = pulses, 3 = detection)
    pairings = {"(01)(23)": (lambda i, j: (X3[i], X3[i], X3[j], X3[j]), dd(0, 1) * dd(2, 3)),
                "(02)(13)": (lambda i, j: (X3[i], X3[j], X3[i], X3[j]), dd(0, 2) * dd(1, 3)),
                "(03)(12)": (lambda i, j: (X3[i], X3[j], X3[j], X3[i]), dd(0, 3) * dd(1, 2))}
    for name, (mk, expect) in pairings.items():
        acc = 0
        for i in range(3):
            for j in range(3):
                acc = acc + pathway_prefactor(cx, mk(i, j), d)
        cx.prove_eq("contraction%s" % name, acc, expect, tol=1e-9)
    # general polarisations: the bilinear form of the three pairings with M4 = (4 on the diagonal, -1 off)/30
    e = [cx.real_array("e%d" % i, 3) for i in range(4)]
    ee = dots(e)
    Fe = [ee(3, 2) * ee(1, 0), ee(3, 1) * ee(2, 0), ee(3, 0) * ee(2, 1)]
    Fd = [dd(3, 2) * dd(1, 0), dd(3, 1) * dd(2, 0), dd(3, 0) * dd(2, 1)]
    ref = 0
    for a in range(3):
        for b in range(3):
            ref = ref + Fe[a] * (4.0 if a == b else -1.0) * Fd[b] / 30.0
    cx.prove_eq("bilinear_form", pathway_prefactor(cx, e, d) * 30.0, ref * 30.0, tol=1e-9)
    # sign of the pathway: product of the interaction sides
    cx.prove_eq("sign", pathway_prefactor(cx, e, d, sides=(1, -1, 1, 1)), -pathway_prefactor(cx, e, d), tol=1e-9)


@harness("C12", "symmetries",
         quick=[dict(plane=[0, 1], what="dipoles"), dict(plane=[1, 2], what="fields")],
         thorough=[dict(plane=p, what=w) for p in ([0, 1], [0, 2], [1, 2]) for w in ("dipoles", "fields")],
         functions=[F_LAB + ":LabSetup.set_pulse_polarizations", F_DIA + ":liouville_pathway.build",
                    F_DIA + ":liouville_pathway.orientational_averaging"],
         bound="common rotation of all four dipoles, or of all four polarisation vectors, by a plane rotation in each "
               "coordinate plane (generators of SO(3)), c^2+s^2=1 symbolic; common scaling of all dipoles by s gives s^4",
         out="composite rotations (successive plane rotations)")
def symmetries(cx, plane, what):
    d = [cx.real_array("d%d" % i, 3) for i in range(4)]
    e = [cx.real_array("e%d" % i, 3) for i in range(4)]
    c, s_ = cx.real("c", 0.3, 0.9), cx.real("s", 0.3, 0.9)
    if cx.sym:
        cx.unit_circle(c, s_)
    else:
        n = (c * c + s_ * s_) ** 0.5
        c, s_ = c / n, s_ / n
    R = numpy.zeros((3, 3), dtype=object if cx.sym else float)
    if cx.sym:
        from symnum import core
        R[...] = core.lift(0)
    for k in range(3):
        R[k, k] = 1
    i, j = plane
    R[i, i], R[j, j], R[i, j], R[j, i] = c, c, -s_, s_
    base = pathway_prefactor(cx, e, d)
    if what == "dipoles":
        rot = pathway_prefactor(cx, e, [numpy.dot(R, v) for v in d])
    else:
        rot = pathway_prefactor(cx, [numpy.dot(R, v) for v in e], d)
    cx.prove_eq("rotation_invariant", rot, base, tol=1e-9)
    sc = cx.real("scale", 0.5, 2.0)
    cx.prove_eq("fourth_power", pathway_prefactor(cx, e, [sc * v for v in d]), sc ** 4 * base, tol=1e-9)


PHASES = [(3, 4, 5), (5, 12, 13), (8, 15, 17)]     # exact points of the unit circle (a + i b)/c


def _pathway_sums(cx, energies, dips, mult, evolve=False, widths=None, pol="XXXX"):
    """real Aggregate.build/diagonalize/liouville_pathways_3T with symbolic site dipoles, concrete
    site energies, zero coupling, waiting time 0 (identity evolution), all-parallel polarisations;
    returns {(type, w1, w3): sum of prefactors}"""
    import quantarhei as qr
    from quantarhei.utils.vectors import X
    n = len(energies)
    with cx.concrete():
        mols = []
        for e in energies:
            m = qr.Molecule(elenergies=[0.0, e])
            m.set_dipole(0, 1, [1.0, 0.0, 0.0])
            if widths is not None:
                m.set_transition_width((0, 1), widths[len(mols)])
            mols.append(m)
        agg = qr.Aggregate(molecules=mols)
        if n > 1:
            agg.init_coupling_matrix()
    for m, d in zip(mols, dips):
        dm = numpy.zeros((2, 2, 3)) if not cx.sym else __import__("symnum").core.zeros((2, 2, 3))
        dm[0, 1, :] = d
        dm[1, 0, :] = d
        m.dmoments = dm
    agg.build(mult=mult)
    agg.diagonalize()
    # tolerance filters: the largest dipole strength only scales the threshold; generic dipoles
    agg.D2_max = 1.0
    N = agg.Ntot
    with cx.concrete():
        U = qr.qm.SuperOperator(dim=N)
        for i in range(N):
            for j in range(N):
                U.data[i, j, i, j] = 1.0
        sigs = [tuple(st.elstate.elsignature) if hasattr(st, "elstate") else tuple(st.elsignature)
                for (_, st) in agg.all_states]
        order_ok = bool(numpy.all(numpy.diff(numpy.diag(numpy.asarray(agg.HH, dtype=float))) > 0))
    if evolve:
        # unitary waiting-time evolution of independent molecules: molecule m's excited state acquires the
        # phase phi_m, a state the product of its excited molecules' phases; U[ab,ab] = phi_a conj(phi_b)
        cx.prove("site_states_ordered_by_energy", order_ok and len(sigs) == N)
        from fractions import Fraction
        if cx.sym:
            from symnum import core
            one = core.mk(Fraction(1), Fraction(0))
            mol_phase = [core.mk(Fraction(a, c), Fraction(b, c)) for (a, b, c) in PHASES]
            Ud = core.zeros((N, N, N, N))
        else:
            one = 1.0 + 0j
            mol_phase = [complex(a, b) / c for (a, b, c) in PHASES]
            Ud = numpy.zeros((N, N, N, N), dtype=complex)
        ph = []
        for sg in sigs:
            v = one
            for m, occ in enumerate(sg):
                if occ:
                    v = v * mol_phase[m + (evolve if isinstance(evolve, int) and not isinstance(evolve, bool) else 0)]
            ph.append(v)
        for i in range(N):
            for j in range(N):
                Ud[i, j, i, j] = ph[i] * ph[j].conjugate()
        U._data = Ud
    with cx.concrete():
        lab = qr.LabSetup()
        from quantarhei.utils.vectors import Y
        v = [dict(X=X, Y=Y)[ch] for ch in pol]
        lab.set_pulse_polarizations(pulse_polarizations=(v[0], v[1], v[2]), detection_polarization=v[3])
    types = ("R1g", "R2g", "R3g", "R4g", "R1f*", "R2f*") if mult > 1 and n > 1 else ("R1g", "R2g", "R3g", "R4g")
    pws = agg.liouville_pathways_3T(ptype=types, eUt=U, ham=agg.get_Hamiltonian(), t2=0.0 if not evolve else 10.0,
                                    lab=lab)
    sums = {}
    for p in pws:
        noe = 1 + p.order + p.relax_order
        key = (p.pathway_type, round(float(p.frequency[0]), 6), round(float(p.frequency[noe - 2]), 6))
        if widths is not None:
            # line widths of the first and the third interval belong to the peak
            key = key + (round(float(p.widths[1]), 9), round(float(p.widths[3]), 9))
        sums[key] = sums.get(key, 0) + p.pref
    return sums, len(pws)


@harness("C12", "uncoupled_additivity",
         quick=[dict(energies=[1.0, 1.2]), dict(energies=[1.0, 1.2], evolve=True),
                dict(energies=[1.2, 1.0], widths=[0.09, 0.16]), dict(energies=[1.3, 1.0, 1.15], widths=[0.1936, 1.3689, 5.76]),
                dict(energies=[1.0, 1.2], evolve=True, pol="XYXY")],
         thorough=[dict(energies=[1.0, 1.2]), dict(energies=[1.0, 1.15, 1.3]), dict(energies=[1.0, 1.2], evolve=True),
                   dict(energies=[1.0, 1.15, 1.3], evolve=True), dict(energies=[1.2, 1.0], widths=[0.09, 0.16])] +
                  [dict(energies=list(e), widths=[0.1936, 1.3689, 5.76]) for e in
                   ((1.0, 1.15, 1.3), (1.15, 1.0, 1.3), (1.3, 1.0, 1.15), (1.15, 1.3, 1.0), (1.3, 1.15, 1.0))] +
                  [dict(energies=[1.0, 1.2], evolve=True, pol=q) for q in ("XXYY", "XYXY", "XYYX")] +
                  [dict(energies=[1.0, 1.15, 1.3], pol="XYYX")],
         functions=["quantarhei/builders/aggregate_spectroscopy.py:liouville_pathways_3T",
                    "quantarhei/builders/aggregate_spectroscopy.py:generate_R1g",
                    "quantarhei/builders/aggregate_spectroscopy.py:generate_R2g",
                    "quantarhei/builders/aggregate_spectroscopy.py:generate_R3g",
                    "quantarhei/builders/aggregate_spectroscopy.py:generate_R4g",
                    "quantarhei/builders/aggregate_spectroscopy.py:generate_R1f",
                    "quantarhei/builders/aggregate_spectroscopy.py:generate_R2f",
                    F_DIA + ":liouville_pathway.add_transition", F_DIA + ":liouville_pathway.build",
                    F_DIA + ":liouville_pathway.orientational_averaging",
                    "quantarhei/builders/aggregate_base.py:AggregateBase.build"],
         bound="uncoupled dimer (thorough trimer) with two-exciton states, concrete distinct site energies, "
               "arbitrary (generic: above the tolerance filter) site dipole vectors, waiting time 0 (identity) and "
               "a non-zero waiting time with the unitary evolution of independent molecules (exact rational points "
               "of the unit circle as the molecules' phases, so coherences during t2 are not real), all-parallel "
               "and (thorough) the crossed XXYY, XYXY, XYYX polarisations; molecules listed in any energy order with different phenomenological line widths "
               "(the widths of the first and third interval are part of the peak's identity): "
               "summed pathway prefactors at every cross-peak position vanish (ESA cancels GSB+SE), "
               "and at every diagonal position equal those of the molecule taken alone, separately for the "
               "rephasing and non-rephasing signals",
         out="line shapes, relaxation during the waiting time, coupled aggregates, oblique polarisations")
def uncoupled_additivity(cx, energies, evolve=False, widths=None, pol="XXXX"):
    # widths: squares whose pairwise sums are squares too (Euler brick 44, 117, 240), so that every square root
    # the code takes of a width is an exact rational and the widths stay concrete numbers in symbolic mode
    n = len(energies)
    dips = [cx.real_array("d%d" % i, 3) for i in range(n)]
    for d in dips:
        cx.assume(numpy.dot(d, d) > 0.01, "generic dipoles: |d|^2 above the tolerance filter")
        cx.assume(numpy.dot(d, d) < 100.0)
    sums, npw = _pathway_sums(cx, energies, dips, 2, evolve=evolve, widths=widths, pol=pol)
    cx.prove("pathways_generated", npw > 0)
    mono = {}
    for i, (e, d) in enumerate(zip(energies, dips)):
        s1, _ = _pathway_sums(cx, [e], [d], 1, evolve=(i if i else True) if evolve else False,
                              widths=None if widths is None else [widths[i]], pol=pol)
        mono.update(s1)
    for key, val in sorted(sums.items()):
        typ, w1, w3 = key[:3]
        if abs(abs(w1) - abs(w3)) > 1e-9:
            cx.prove_eq("cross_peak_cancels%s" % (key,), val, 0, tol=1e-9)
        else:
            cx.prove("diagonal_peak_known%s" % (key,), key in mono)
            if key in mono:
                cx.prove_eq("diagonal_peak_is_monomer%s" % (key,), val, mono[key], tol=1e-9)
    for key in mono:
        cx.prove("monomer_peak_present%s" % (key,), key in sums)


@harness("C12", "calculator_signal_bookkeeping",
         quick=[dict(types=["R", "NR", "R"]), dict(types=["NR", "NR"]), dict(types=[])],
         thorough=[dict(types=t) for t in (["R", "NR", "R"], ["NR", "NR"], ["R"], [], ["R", "NR", "NR", "R"])],
         functions=["quantarhei/spectroscopy/mocktwodcalculator.py:MockTwoDResponseCalculator.calculate",
                    "quantarhei/spectroscopy/mocktwodcalculator.py:MockTwoDResponseCalculator.calculate_one",
                    "quantarhei/spectroscopy/mocktwodcalculator.py:MockTwoDResponseCalculator.bootstrap",
                    "quantarhei/spectroscopy/twod2.py:TwoDSpectrumBase._add_data"],
         bound="up to 4 pathways of given types whose line-shape arrays are arbitrary complex numbers (1x1 grid; the "
               "shape function is stubbed): the calculator's total signal equals rephasing + non-rephasing, each "
               "being the sum of its pathways' contributions (calculate() and calculate_one())",
         out="the Gaussian/Lorentzian line-shape values themselves")
def calculator_signal_bookkeeping(cx, types):
    import quantarhei as qr
    from quantarhei.spectroscopy.mocktwodcalculator import MockTwoDResponseCalculator
    with cx.concrete():
        t1 = qr.TimeAxis(0.0, 1, 1.0)
        t2 = qr.TimeAxis(0.0, 2, 1.0)
        t3 = qr.TimeAxis(0.0, 1, 1.0)
        calc = MockTwoDResponseCalculator(t1, t2, t3)
        try:
            calc.bootstrap(rwa=1.0)
        except Exception:
            # a one-point axis has no conjugate grid; the frequency axes only carry the shape here
            calc.oa1 = qr.FrequencyAxis(0.0, 1, 1.0)
            calc.oa3 = qr.FrequencyAxis(0.0, 1, 1.0)
            calc.tc = 0
            calc.shape = "Gaussian"
    vals = [cx.cplx("X%d" % i) for i in range(len(types))]
    pws = [types_ns(i, t) for i, t in enumerate(types)]

    def fake_shape(pathway, shape="Gaussian"):
        a = numpy.zeros((1, 1), dtype=complex)
        if pathway is not None:
            a[0, 0] = vals[pathway.idx]
        return a
    calc.calculate_pathway = fake_shape
    calc.set_pathways(pws)
    sumR = 0
    sumN = 0
    for v, t in zip(vals, types):
        if t == "R":
            sumR = sumR + v
        else:
            sumN = sumN + v
    for which in ("calculate", "calculate_one"):
        tw = calc.calculate() if which == "calculate" else calc.calculate_one(0)

        def view(flag):
            tw.set_data_flag(flag)
            d = tw.d__data
            return 0 if d is None else d[0, 0]
        cx.prove_eq(which + "/rephasing", view(qr.signal_REPH), sumR)
        cx.prove_eq(which + "/nonrephasing", view(qr.signal_NONR), sumN)
        cx.prove_eq(which + "/total", view(qr.signal_TOTL), sumR + sumN)
        # reading is pure: any order and repetition of the three views gives the same answers
        cx.prove_eq(which + "/total_again", view(qr.signal_TOTL), sumR + sumN)
        cx.prove_eq(which + "/rephasing_after_total", view(qr.signal_REPH), sumR)
        cx.prove_eq(which + "/nonrephasing_after_total", view(qr.signal_NONR), sumN)
        cx.prove_eq(which + "/total_third", view(qr.signal_TOTL), sumR + sumN)


def types_ns(i, t):
    return types.SimpleNamespace(idx=i, pathway_type=t)


@harness("C12", "lab_reuse",
         quick=[dict()], thorough=[dict()],
         functions=[F_LAB + ":LabSetup.set_pulse_polarizations", F_DIA + ":liouville_pathway.orientational_averaging"],
         bound="one LabSetup object given a first and then a second, different, arbitrary polarisation four-tuple "
               "(both symbolic): the prefactor of a pathway with arbitrary dipoles computed after the second call "
               "equals the one computed with a fresh LabSetup holding the second four-tuple",
         out="")
def lab_reuse(cx):
    import quantarhei as qr
    d = [cx.real_array("d%d" % i, 3) for i in range(4)]
    e1 = [cx.real_array("e%d" % i, 3) for i in range(4)]
    e2 = [cx.real_array("f%d" % i, 3) for i in range(4)]
    with cx.concrete():
        lab = qr.LabSetup()
    first = pathway_prefactor(cx, e1, d, lab=lab)
    cx.prove_eq("first_use_is_fresh", first, pathway_prefactor(cx, e1, d), tol=1e-9)
    second = pathway_prefactor(cx, e2, d, lab=lab)
    cx.prove_eq("second_use_is_fresh", second, pathway_prefactor(cx, e2, d), tol=1e-9)
