"""C20 Distributed work ranges partition the index range exactly (CrossHair)."""
from vf.xhair import xhair

F = "quantarhei/core/parallel.py"
xhair("C20", "xh/c20_ranges.py",
      ["ranges_partition", "range_helper_partition", "range_helper_serial",
       "list_helper_partition", "array_helper_partition", "helpers_serial"],
      env_quick=dict(XH_MAXSIZE=5, XH_MAXLEN=4), env_thorough=dict(XH_MAXSIZE=10, XH_MAXLEN=7),
      t_quick=90, t_thorough=900,
      functions=[F + ":_calculate_ranges", F + ":_calculate_ranges_list", F + ":_calculate_ranges_array",
                 F + ":block_distributed_range", F + ":block_distributed_list",
                 F + ":block_distributed_array"],
      bound="process count size <= 5 (thorough 10); range start/stop unbounded integers with start <= stop; "
            "lists/arrays of length <= 4 (thorough 7) with arbitrary integer elements; every rank 0..size-1",
      out="process counts beyond the bound; the MPI transport itself (stand-in configuration object); "
          "asynchronous_range")


# ---------------------------------------------------------------------------
# "... so that sum-reduced results equal the serial result": the real users of the helpers
# ---------------------------------------------------------------------------
import contextlib
import sys
import types

import numpy

from vf.framework import harness
from harness.common import build_sbi, set_symmetric_hamiltonian, set_symmetric_K

D = "quantarhei/qm/liouvillespace/"


class FakeComm:
    """sequentially simulated communicator: pass 1 records every rank's contribution to each Allreduce,
    pass 2 hands every rank the sum (what MPI's Allreduce with op=SUM does)"""

    def __init__(self):
        self.recorded = {}       # call index -> {rank: array}
        self.mode = "record"
        self.rank = 0
        self.calls = 0

    def new_rank(self, rank):
        self.rank = rank
        self.calls = 0

    def Allreduce(self, A, B, op=None):
        k = self.calls
        self.calls += 1
        if self.mode == "record":
            self.recorded.setdefault(k, {})[self.rank] = numpy.array(A, dtype=object).copy()
            B[...] = A
        else:
            parts = self.recorded[k]
            tot = None
            for r in sorted(parts):
                tot = parts[r] if tot is None else tot + parts[r]
            B[...] = tot

    def Reduce(self, A, B, op=None, root=0):
        # result only on the root process
        k = self.calls
        self.calls += 1
        if self.mode == "record":
            self.recorded.setdefault(k, {})[self.rank] = numpy.array(A, dtype=object).copy()
            if B is not None:
                B[...] = A
        elif self.rank == root and B is not None:
            parts = self.recorded[k]
            tot = None
            for r in sorted(parts):
                tot = parts[r] if tot is None else tot + parts[r]
            B[...] = tot

    def bcast(self, value, root=0):
        return value

    def Barrier(self):
        pass

    def Get_rank(self):
        return self.rank


@contextlib.contextmanager
def simulated_mpi(comm, size):
    """the real DistributedConfiguration of the Manager with have_mpi/size/rank/comm set by hand and a
    stand-in mpi4py module (only MPI.SUM is looked up by the code)"""
    from quantarhei.core.managers import Manager
    dc = Manager().get_DistributedConfiguration()
    saved = {k: getattr(dc, k) for k in ("have_mpi", "comm", "rank", "size", "parallel_level", "parallel_region",
                                         "inparallel")}
    fake = types.ModuleType("mpi4py")
    fake.MPI = types.SimpleNamespace(SUM="sum", COMM_WORLD=comm)
    old = sys.modules.get("mpi4py")
    sys.modules["mpi4py"] = fake
    dc.have_mpi, dc.comm, dc.size = True, comm, size
    dc.parallel_level, dc.parallel_region, dc.inparallel = 0, 0, False
    try:
        yield dc
    finally:
        for k, v in saved.items():
            setattr(dc, k, v)
        if old is None:
            sys.modules.pop("mpi4py", None)
        else:
            sys.modules["mpi4py"] = old


def _build(kind, ham, sbi):
    from quantarhei.qm import RedfieldRelaxationTensor, RedfieldRateMatrix
    if kind == "operators":
        RT = RedfieldRelaxationTensor(ham, sbi, as_operators=True)
        return dict(Lm=RT._Lm.copy(), Ld=RT._Ld.copy(), Km=RT._Km.copy())
    if kind == "tensor":
        RT = RedfieldRelaxationTensor(ham, sbi, as_operators=False)
        return dict(R=RT._data.copy())
    if kind == "converted":
        RT = RedfieldRelaxationTensor(ham, sbi, as_operators=True)
        RT.convert_2_tensor()
        return dict(R=RT._data.copy())
    raise ValueError(kind)


@harness("C20", "sum_reduction",
         quick=[dict(size=2, kind="operators"), dict(size=2, kind="tensor"), dict(size=3, kind="converted")],
         thorough=[dict(size=s, kind=k) for s in (2, 3, 4) for k in ("operators", "tensor", "converted")],
         functions=[D + "redfieldtensor.py:RedfieldRelaxationTensor._implementation",
                    D + "redfieldtensor.py:RedfieldRelaxationTensor._convert_operators_2_tensor",
                    F + ":block_distributed_range", F + ":DistributedConfiguration.allreduce",
                    F + ":start_parallel_region", F + ":close_parallel_region"],
         bound="the Redfield tensor (operator form, tensor form, operator form converted) of a 3-level system with 3 "
               "baths, built by the real code on every rank of 2, 3 (thorough 4) sequentially simulated processes "
               "(the Manager's real DistributedConfiguration with rank/size set by hand; Allreduce = sum of the "
               "ranks' recorded contributions): on EVERY rank the result equals the serial one; H, K_m symbolic, "
               "bath integrals uninterpreted",
         out="the MPI transport itself; the rate-matrix and other users of the helpers")
def sum_reduction(cx, size, kind):
    N, nb = 3, 3
    ham, sbi, time = build_sbi(cx, N, nb, Nt=4)
    set_symmetric_hamiltonian(cx, ham)
    set_symmetric_K(cx, sbi, N)
    if cx.sym:
        from symnum import linalg
        linalg.use_eigh(eigen_equation=False)
    serial = _build(kind, ham, sbi)
    comm = FakeComm()
    with simulated_mpi(comm, size) as dc:
        for mode in ("record", "sum"):
            comm.mode = mode
            results = []
            for r in range(size):
                comm.new_rank(r)
                dc.rank = r
                dc.parallel_level, dc.parallel_region, dc.inparallel = 0, 0, False
                results.append(_build(kind, ham, sbi))
        cx.prove("reductions_happened", len(comm.recorded) >= 1 and all(len(v) == size for v in comm.recorded.values()))
        for r, res in enumerate(results):
            for name, val in res.items():
                cx.prove_eq("rank%d/%s_equals_serial" % (r, name), val, serial[name], tol=1e-9)
