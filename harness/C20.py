"""C20 Distributed work ranges partition the index range exactly (CrossHair)."""
from vf.xhair import xhair

F = "quantarhei/core/parallel.py"
xhair("C20", "xh/c20_ranges.py",
      ["ranges_partition", "range_helper_partition", "range_helper_serial",
       "list_helper_partition", "array_helper_partition", "helpers_serial"],
      env_quick=dict(XH_MAXSIZE=5, XH_MAXLEN=4), env_thorough=dict(XH_MAXSIZE=10, XH_MAXLEN=7),
      t_quick=90, t_thorough=900,
      functions=[F + ":_calculate_ranges", F + ":_calculate_ranges_list", F + ":_calculate_ranges_array",
                 F + ":block_distributed_range", F + ":block_distributed_list",
                 F + ":block_distributed_array"],
      bound="process count size <= 5 (thorough 10); range start/stop unbounded integers with start <= stop; "
            "lists/arrays of length <= 4 (thorough 7) with arbitrary integer elements; every rank 0..size-1",
      out="process counts beyond the bound; the MPI transport itself (stand-in configuration object); "
          "asynchronous_range")
