"""C17 Population (master-equation) dynamics conserve and match the exponential."""
import numpy
from vf.framework import harness

F_RM = "quantarhei/qm/liouvillespace/rates/ratematrix.py"
F_PP = "quantarhei/qm/propagators/poppropagator.py"
F_VA = "quantarhei/core/valueaxis.py"


def rate_matrix(cx, N, name="k"):
    """arbitrary matrix with zero column sums: free off-diagonals, diagonal = -sum"""
    K = numpy.empty((N, N), dtype=object if cx.sym else float)
    for a in range(N):
        for b in range(N):
            if a != b:
                K[a, b] = cx.real("%s_%d_%d" % (name, a, b), 0.0, 1.0)
    for b in range(N):
        acc = 0
        for a in range(N):
            if a != b:
                acc = acc + K[a, b]
        K[b, b] = -acc
    return K


@harness("C17", "set_rate_step",
         quick=[dict(N=2), dict(N=3)], thorough=[dict(N=2), dict(N=3), dict(N=4), dict(N=5)],
         functions=[F_RM + ":RateMatrix.set_rate", F_RM + ":RateMatrix.__init__"],
         bound="inductive step from an ARBITRARY matrix with zero column sums (covers every history of "
               "assignments): N<=3 (thorough 5), every position (a,b), arbitrary new value",
         out="")
def set_rate_step(cx, N):
    from quantarhei.qm.liouvillespace.rates.ratematrix import RateMatrix
    K0 = rate_matrix(cx, N)
    v = cx.real("v")
    for a in range(N):
        for b in range(N):
            RM = RateMatrix(data=K0.copy())
            if a == b:
                try:
                    RM.set_rate((a, b), v)
                    cx.fail("diag_refused[%d]" % a, "diagonal assignment accepted")
                except Exception:
                    cx.prove_eq("diag_unchanged[%d]" % a, RM.data, K0)
                continue
            RM.set_rate((a, b), v)
            D = RM.data
            cx.prove_eq("colsum[%d,%d]" % (a, b), numpy.sum(D, axis=0), numpy.zeros(N, dtype=int))
            cx.prove_eq("assigned[%d,%d]" % (a, b), D[a, b], v)
            off = ~numpy.eye(N, dtype=bool)
            off[a, b] = False
            cx.prove_eq("others[%d,%d]" % (a, b), D[off], K0[off])
    # a fresh matrix built by dim
    RM = RateMatrix(dim=N)
    cx.prove_eq("fresh_zero", RM.data, numpy.zeros((N, N), dtype=int))


def taylor_ref(K, p, dt, L):
    """sum_{l<=L} (dt K)^l / l!  applied to p, written independently of the code"""
    acc = p
    term = p
    for l in range(1, L + 1):
        term = numpy.dot(K, term) * dt / l
        acc = acc + term
    return acc


@harness("C17", "propagate_taylor",
         quick=[dict(N=2, Nt=3, Nref=1), dict(N=3, Nt=2, Nref=1), dict(N=2, Nt=2, Nref=2)],
         thorough=[dict(N=2, Nt=4, Nref=1), dict(N=3, Nt=3, Nref=1), dict(N=2, Nt=3, Nref=2),
                   dict(N=4, Nt=2, Nref=1), dict(N=3, Nt=2, Nref=2)],
         functions=[F_PP + ":PopulationPropagator._propagate_short_exp",
                    F_PP + ":PopulationPropagator.propagate", F_PP + ":PopulationPropagator.__init__"],
         bound="N<=3 states, Nt<=3 stored times (thorough N<=4, Nt<=4), refinement Nref<=2; K arbitrary with zero "
               "column sums, p0 arbitrary, dt symbolic",
         out="size of the truncation error of the order-4 expansion (the algebraic identity with the degree-4 "
             "Taylor polynomial of exp(K dt) is what is decided)")
def propagate_taylor(cx, N, Nt, Nref):
    from quantarhei import TimeAxis
    from quantarhei.qm.propagators.poppropagator import PopulationPropagator
    K = rate_matrix(cx, N)
    p0 = cx.real_array("p", N)
    dt = cx.real("dt", 0.01, 0.5)
    with cx.concrete():
        ta = TimeAxis(0.0, Nt, 1.0)
    prop = PopulationPropagator(ta, rate_matrix=K)
    prop.dt = dt
    prop.Nref = Nref
    pops = prop.propagate(p0)
    cx.prove("shape", pops.shape == (Nt, N))
    cx.prove_eq("initial", pops[0], p0)
    ref = p0
    tot0 = numpy.sum(p0)
    for i in range(1, Nt):
        for _ in range(Nref):
            ref = taylor_ref(K, ref, dt, 4)
        cx.prove_eq("taylor[%d]" % i, pops[i], ref)
        cx.prove_eq("sum[%d]" % i, numpy.sum(pops[i]), tot0)


@harness("C17", "propagate_positive",
         quick=[dict(N=2)], thorough=[dict(N=2)],
         functions=[F_PP + ":PopulationPropagator._propagate_short_exp"],
         bound="N=2, one stored step: off-diagonal rates >= 0, p0 >= 0, step admissible dt*(k01+k10) <= 1",
         out="N>=3 (the admissibility constant of the order-4 polynomial is not characterised there)",
         timeout=600)
def propagate_positive(cx, N):
    from quantarhei import TimeAxis
    from quantarhei.qm.propagators.poppropagator import PopulationPropagator
    K = rate_matrix(cx, N)
    p0 = cx.real_array("p", N)
    dt = cx.real("dt", 0.01, 0.5)
    cx.assume(dt >= 0, "dt >= 0")
    tot = 0
    for a in range(N):
        cx.assume(p0[a] >= 0, "initial populations >= 0")
        for b in range(N):
            if a != b:
                cx.assume(K[a, b] >= 0, "off-diagonal rates >= 0")
                tot = tot + K[a, b]
    cx.assume(dt * tot <= 1, "admissible step: dt * (sum of rates) <= 1")
    with cx.concrete():
        ta = TimeAxis(0.0, 2, 1.0)
    prop = PopulationPropagator(ta, rate_matrix=K)
    prop.dt = dt
    pops = prop.propagate(p0)
    for a in range(N):
        cx.prove("nonneg[%d]" % a, pops[1, a] >= 0)


@harness("C17", "propagation_matrix",
         quick=[dict(N=2, sub=(0.0, 3, 2.0)), dict(N=2, sub=(2.0, 2, 2.0)), dict(N=2, sub=(3.0, 2, 2.0)),
                dict(N=2, sub=(8.0, 2, 2.0), t0=5.0), dict(N=2, sub=(9.0, 2, 2.0), t0=5.0)],
         thorough=[dict(N=2, sub=s) for s in ((0.0, 3, 2.0), (2.0, 2, 2.0), (3.0, 2, 2.0), (4.0, 3, 1.0),
                                               (1.0, 3, 3.0))] +
                  [dict(N=2, sub=s, t0=5.0) for s in ((5.0, 3, 2.0), (8.0, 2, 2.0), (9.0, 2, 2.0), (7.0, 3, 1.0))],
         functions=[F_PP + ":PopulationPropagator.get_PropagationMatrix", F_VA + ":ValueAxis.is_subset_of"],
         bound="N=2; propagator axis 0..9 step 1 (t0: starting at t0=5 instead); sub-axes (start,length,step) aligned, shifted by whole sub-steps "
               "and shifted by a fraction of a sub-step; K arbitrary real with a real eigen-decomposition "
               "K S = S diag(lambda), det S != 0 (eig stub), Exp uninterpreted with its functional equation "
               "instantiated for the arguments that occur",
         out="the numerical value of exp; defective or complex-spectrum K; perturbative corrections")
def propagation_matrix(cx, N, sub, t0=0.0):
    from quantarhei import TimeAxis
    from quantarhei.qm.propagators.poppropagator import PopulationPropagator
    with cx.concrete():
        ta = TimeAxis(t0, 10, 1.0)
        ts = TimeAxis(*sub)
    lam = cx.real_array("lam", N)
    S = cx.real_array("S", (N, N))
    det = S[0, 0] * S[1, 1] - S[0, 1] * S[1, 0]
    if cx.sym:
        from symnum import npatch
        cx.assume(det == 1, "eig stub: eigenvector matrix normalised to det S = 1 (U = S exp(D t) S^-1 is "
                            "invariant under column scaling)")
        S1 = numpy.array([[S[1, 1], -S[0, 1]], [-S[1, 0], S[0, 0]]], dtype=object)
        npatch.tag_inverse(S, S1)
        K = numpy.dot(S, numpy.dot(numpy.diag(lam), S1))
        old = numpy.linalg.eig

        def eig_stub(A):
            S_ = S.copy()
            npatch.tag_inverse(S_, S1)
            return lam.copy(), S_
        numpy.linalg.eig = eig_stub
    else:
        S = S / numpy.sqrt(abs(det)) if det != 0 else S
        S1 = numpy.linalg.inv(S)
        K = S @ numpy.diag(lam) @ S1
    try:
        prop = PopulationPropagator(ta, rate_matrix=K)
        U = prop.get_PropagationMatrix(ts)
    finally:
        if cx.sym:
            numpy.linalg.eig = old
    cx.prove("shape", U.shape == (N, N, ts.length))
    if cx.sym:
        # intermediate multiples of the step: gives the instantiation of Exp(a+b)=Exp(a)Exp(b) the chain
        # Exp(k*step*lam) = Exp(step*lam)^k it needs when the code reaches the start by repeated steps
        for k in range(2, int(round((ts.start - ta.start) / ts.step)) + 1):
            numpy.exp(lam * float(k * ts.step))
    for i in range(ts.length):
        tau = ts.data[i] - ta.start
        ref = numpy.dot(S, numpy.dot(numpy.diag(numpy.exp(lam * float(tau))), S1))
        cx.prove_eq("U[%d]" % i, U[:, :, i], ref)


@harness("C17", "caller_arrays_untouched",
         quick=[dict(form="float64"), dict(form="symbolic")], thorough=[dict(form="float64"), dict(form="symbolic"), dict(form="list")],
         functions=[F_PP + ":PopulationPropagator.propagate", F_PP + ":PopulationPropagator._propagate_short_exp"],
         bound="N=3, 3 stored times: the initial populations handed to propagate() (a float64 array - the case in which "
               "a dtype-preserving conversion shares memory, entirely concrete; a symbolic object array; a list) and "
               "the rate matrix are unchanged afterwards and a second call returns the same trajectory",
         out="")
def caller_arrays_untouched(cx, form):
    from quantarhei import TimeAxis
    from quantarhei.qm.propagators.poppropagator import PopulationPropagator
    N = 3
    with cx.concrete():
        ta = TimeAxis(0.0, 3, 1.0)
        Kc = numpy.array([[-0.03, 0.01, 0.0], [0.02, -0.02, 0.04], [0.01, 0.01, -0.04]])
        pc = numpy.array([0.2, 0.5, 0.3])
    if form == "symbolic":
        K = rate_matrix(cx, N)
        p0 = cx.real_array("p", N)
        run = lambda: PopulationPropagator(ta, rate_matrix=K).propagate(p0)
    else:
        K = Kc
        p0 = pc if form == "float64" else [0.2, 0.5, 0.3]

        def run():
            with cx.concrete():
                return PopulationPropagator(ta, rate_matrix=K).propagate(p0)
    K0 = numpy.array(K).copy()
    p_before = numpy.array(p0).copy()
    first = numpy.array(run()).copy()
    cx.prove_eq("initial_populations_unchanged", numpy.array(p0), p_before, tol=1e-15)
    cx.prove_eq("rate_matrix_unchanged", numpy.array(K), K0, tol=1e-15)
    second = numpy.array(run()).copy()
    cx.prove_eq("second_call_same_trajectory", second, first, tol=1e-12)
    cx.prove_eq("trajectory_starts_at_initial_populations", first[0], p_before, tol=1e-12)
