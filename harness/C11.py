"""C11 Linear spectra match the Fourier integral and symmetry relations."""
import types
import numpy
from vf.framework import harness
from harness.common import build_aggregate, spectral_hamiltonian

F_A = "quantarhei/spectroscopy/abscalculator.py"


def hermitian_sum(cx, a, w, t, dt, M_hint):
    """Re a_0 + sum_{n>=1} 2 Re[a_n exp(i w t_n)]  times dt  (Hermitian extension a(-t) = conj a(t))"""
    from harness.C13 import grid_phase
    acc = a[0].real
    for n in range(1, len(a)):
        ph = grid_phase(cx, "phase[%d]" % n, w, t[n], M_hint) if cx.sym else numpy.exp(1j * w * t[n])
        term = a[n] * ph
        acc = acc + 2 * term.real
    return acc * dt


@harness("C11", "monomer_spectrum_on_axis",
         quick=[dict(Nt=4)], thorough=[dict(Nt=4), dict(Nt=3)],
         functions=[F_A + ":AbsSpectrumCalculator.bootstrap", F_A + ":AbsSpectrumCalculator._calculate_monomer",
                    F_A + ":AbsSpectrumCalculator.one_transition_spectrum"],
         bound="molecule without bath, Nt=4 time points (thorough 3, 4; for Nt=6 the hfft length 10 and the axis length 12 mix roots of unity of orders the solver does not decide), time step 1: the time response a(t_n) the "
               "code hands to the FFT is captured and the returned raw spectrum is compared, at every point w_k of "
               "the RETURNED frequency axis, with dd * sum over the Hermitian extension of a(t_n) exp(i (w_k - rwa) "
               "t_n) dt; hfft by its defining sum with exact roots of unity",
         out="line position 'within the grid resolution' for physical line shapes; the dynamics route")
def monomer_spectrum_on_axis(cx, Nt):
    import quantarhei as qr
    from quantarhei.spectroscopy.abscalculator import AbsSpectrumCalculator
    with cx.concrete():
        ta = qr.TimeAxis(0.0, Nt, 1.0)
        mol = qr.Molecule(elenergies=[0.0, 1.0])
        mol.set_dipole(0, 1, [1.0, 0.0, 0.0])
    d = cx.real_array("d", 3)
    dm = numpy.zeros((2, 2, 3)) if not cx.sym else __import__("symnum").core.zeros((2, 2, 3))
    dm[0, 1, :] = d
    dm[1, 0, :] = d
    calc = AbsSpectrumCalculator(ta, system=mol)
    with cx.concrete():
        calc.bootstrap(rwa=1.0)
    mol.dmoments = dm
    en = numpy.empty(2, dtype=object if cx.sym else float)
    en[0], en[1] = 0.0 * d[0], cx.real("e1", 0.9, 1.1)
    mol.elenergies = en
    # capture the time response the code builds (it enters the spectrum only through the FFT)
    captured = {}
    real_hfft = numpy.fft.hfft

    def spy(a, *args, **kw):
        captured["at"] = numpy.array(a).copy()
        return real_hfft(a, *args, **kw)
    numpy.fft.hfft = spy
    # the natural life time depends on the dipole length through a long formula; replace it by a symbol
    gam = cx.real("lifetime", 50.0, 200.0)
    cx.assume(gam > 0, "natural life time > 0")
    mol.get_electronic_natural_lifetime = lambda N, epsilon_r=1.0: gam
    try:
        sp = calc._calculate_monomer(raw=True)
    finally:
        numpy.fft.hfft = real_hfft
    cx.assume_denominators_nonzero("life time > 0")
    at = captured["at"]
    cx.prove("length", sp.axis.length == Nt and len(sp.data) == Nt)
    dd = numpy.dot(d, d)
    for k in range(Nt):
        wk = sp.axis.data[k] - calc.rwa
        ref = dd * hermitian_sum(cx, at, wk, ta.data, ta.step, 2 * Nt)
        cx.prove_eq("fourier_integral_on_returned_axis[%d]" % k, sp.data[k], ref, tol=1e-6)


@harness("C11", "aggregate_purity_and_sum_rule",
         quick=[dict(nmol=2)], thorough=[dict(nmol=2)],
         functions=[F_A + ":AbsSpectrumCalculator._calculate_aggregate", F_A + ":AbsSpectrumCalculator._excitonic_coft",
                    "quantarhei/qm/hilbertspace/operators.py:SelfAdjointOperator.diagonalize",
                    "quantarhei/qm/hilbertspace/hamiltonian.py:Hamiltonian.diagonalize",
                    "quantarhei/qm/hilbertspace/dmoment.py:TransitionDipoleMoment.transform",
                    "quantarhei/qm/hilbertspace/dmoment.py:TransitionDipoleMoment.dipole_strength"],
         bound="dimer with bath, 4 time points: Hamiltonian given by its eigen-decomposition (ground state decoupled), "
               "dipole operator symbolic: after the calculation H and D are term-wise what they were; the spectrum is "
               "quadratic in a common dipole factor; the exciton dipole strengths sum to the sum of squared site dipoles",
         out="supplied relaxation tensor / rate matrix")
def aggregate_purity_and_sum_rule(cx, nmol):
    import quantarhei as qr
    from quantarhei.spectroscopy.abscalculator import AbsSpectrumCalculator
    agg = build_aggregate(cx, nmol, Nt=4)
    N = agg.HamOp.dim
    with cx.concrete():
        ta = qr.TimeAxis(0.0, 4, 1.0)
        for m in agg.monomers:
            pass
    H, w, S = spectral_hamiltonian(cx, N, block=[[0], list(range(1, N))])
    agg.HamOp._data = H.copy()
    D = numpy.zeros((N, N, 3)) if not cx.sym else __import__("symnum").core.zeros((N, N, 3))
    ds = []
    for i in range(1, N):
        v = cx.real_array("d%d" % i, 3)
        ds.append(v)
        D[0, i, :] = v
        D[i, 0, :] = v
    agg.TrDMOp._data = D.copy()

    def run(scale=None):
        if scale is not None:
            agg.TrDMOp._data = D * scale
        calc = AbsSpectrumCalculator(agg.sbi.TimeAxis if False else ta, system=agg)
        with cx.concrete():
            calc.bootstrap(rwa=1.0)
        return calc._calculate_aggregate(raw=True)
    sp = run()
    cx.assume_denominators_nonzero("")
    cx.prove_eq("H_unchanged", agg.HamOp._data, H, tol=1e-7)
    cx.prove_eq("D_unchanged", agg.TrDMOp._data, D, tol=1e-7)
    # sum rule in the eigenbasis
    Dt = qr.qm.hilbertspace.dmoment.TransitionDipoleMoment(data=numpy.zeros((N, N, 3))) if False else None
    tot = 0
    for a in range(1, N):
        # dipole strength of exciton a: |sum_n S[n,a] d_n|^2
        v = 0
        for n_ in range(1, N):
            v = v + S[n_, a] * D[0, n_, :]
        tot = tot + numpy.dot(v, v)
    want = 0
    for v in ds:
        want = want + numpy.dot(v, v)
    cx.prove_eq("sum_rule", tot, want, tol=1e-7)
    sc = cx.real("scale", 0.5, 2.0)
    sp2 = run(scale=sc)
    cx.prove_eq("quadratic_in_dipole_factor", sp2.data, sc * sc * sp.data, tol=1e-7)


def _run_aggregate(cx, agg, ta, H, D, capture=None):
    """the real AbsSpectrumCalculator._calculate_aggregate on `agg` with Hamiltonian data H and dipole
    data D; optionally records what is handed to / returned by one_transition_spectrum"""
    from quantarhei.spectroscopy.abscalculator import AbsSpectrumCalculator
    agg.HamOp._data = H.copy()
    agg.TrDMOp._data = D.copy()
    calc = AbsSpectrumCalculator(ta, system=agg)
    with cx.concrete():
        calc.bootstrap(rwa=1.0)
    if capture is not None:
        orig = calc.one_transition_spectrum

        def wrapped(self, tr):
            out = orig(tr)
            capture.append(dict(dd=tr["dd"], om=tr["om"], ct=numpy.array(tr["ct"]).copy(), gg=list(tr["gg"]),
                                out=numpy.array(out).copy()))
            return out
        calc.one_transition_spectrum = types.MethodType(wrapped, calc)
    return calc, calc._calculate_aggregate(raw=True)


def _site_dipoles(cx, N, tag="d"):
    from symnum import core
    D = numpy.zeros((N, N, 3)) if not cx.sym else core.zeros((N, N, 3))
    ds = []
    for i in range(1, N):
        v = cx.real_array("%s%d" % (tag, i), 3)
        ds.append(v)
        D[0, i, :] = v
        D[i, 0, :] = v
    return D, ds


@harness("C11", "aggregate_transitions",
         quick=[dict(nmol=2), dict(nmol=3)], thorough=[dict(nmol=2), dict(nmol=3)],
         functions=[F_A + ":AbsSpectrumCalculator._calculate_aggregate", F_A + ":AbsSpectrumCalculator._excitonic_coft",
                    F_A + ":AbsSpectrumCalculator.one_transition_spectrum",
                    "quantarhei/qm/hilbertspace/hamiltonian.py:Hamiltonian.diagonalize",
                    "quantarhei/qm/hilbertspace/dmoment.py:TransitionDipoleMoment.transform",
                    "quantarhei/qm/hilbertspace/dmoment.py:TransitionDipoleMoment.dipole_strength",
                    "quantarhei/qm/corfunctions/cfmatrix.py:CorrelationFunctionMatrix.get_coft"],
         bound="dimer (thorough trimer) whose molecules have different baths, 4 time points, Hamiltonian given by its "
               "eigen-decomposition (ground state decoupled), site dipoles symbolic: what the code hands to the "
               "one-transition routine is, for every exciton a, the dipole strength |sum_n S_na d_n|^2, the frequency "
               "w_a - w_0 - rwa and the bath function sum_n S_na^4 c_n(t); the strengths sum to sum_n |d_n|^2; the "
               "returned spectrum is the sum of the one-transition spectra; a common rotation of all dipoles leaves "
               "the spectrum unchanged",
         out="supplied relaxation tensor / rate matrix; rotations about more than one axis at once (plane rotations "
             "about x, y, z separately)")
def aggregate_transitions(cx, nmol):
    import quantarhei as qr
    agg = build_aggregate(cx, nmol, Nt=4, reorgs=[20 + 15 * i for i in range(nmol)])
    N = agg.HamOp.dim
    with cx.concrete():
        ta = qr.TimeAxis(0.0, 4, 1.0)
        cfm = agg.get_SystemBathInteraction().CC
        cofts = [[numpy.array(cfm.get_coft(k, l)) for l in range(nmol)] for k in range(nmol)]
    H, w, S = spectral_hamiltonian(cx, N, block=[[0], list(range(1, N))])
    D, ds = _site_dipoles(cx, N)
    cap = []
    calc, sp = _run_aggregate(cx, agg, ta, H, D, capture=cap)
    cx.assume_denominators_nonzero("")
    if not cx.sym:
        w, S = numpy.linalg.eigh(numpy.asarray(H, dtype=float))
    cx.prove("one_call_per_exciton", len(cap) == N - 1)
    if len(cap) != N - 1:
        return
    for k in range(nmol):
        for l in range(nmol):
            if k != l:
                cx.prove("independent_baths[%d,%d]" % (k, l), bool(numpy.all(cofts[k][l] == 0)))
    tot = 0
    acc = 0
    for a in range(1, N):
        c = cap[a - 1]
        v = 0
        for n_ in range(1, N):
            v = v + S[n_, a] * D[0, n_, :]
        cx.prove_eq("dipole_strength[%d]" % a, c["dd"], numpy.dot(v, v), tol=1e-7)
        cx.prove_eq("transition_frequency[%d]" % a, c["om"], w[a] - w[0] - calc.rwa, tol=1e-7)
        ref = 0
        for k in range(nmol):
            ref = ref + (S[k + 1, a] ** 4) * cofts[k][k]
        cx.prove_eq("exciton_bath_function[%d]" % a, c["ct"], ref, tol=1e-9)
        cx.prove("no_lifetime_broadening[%d]" % a, c["gg"] == [0.0])
        tot = tot + c["dd"]
        acc = acc + c["out"].real if cx.sym else acc + numpy.real(c["out"])
    want = 0
    for v in ds:
        want = want + numpy.dot(v, v)
    cx.prove_eq("strengths_sum_to_site_dipoles", tot, want, tol=1e-7)
    cx.prove_eq("spectrum_is_sum_of_transitions", sp.data, acc, tol=1e-9)
    # common rotation of all dipoles (about each Cartesian axis)
    c_, s_ = cx.real("rot.c", 0.3, 0.9), cx.real("rot.s", 0.3, 0.9)
    if cx.sym:
        cx.unit_circle(c_, s_)
    else:
        nrm = (c_ * c_ + s_ * s_) ** 0.5
        c_, s_ = c_ / nrm, s_ / nrm
    for ax in range(3):
        i, j = [(1, 2), (2, 0), (0, 1)][ax]
        Dr = D.copy()
        Dr[..., i] = c_ * D[..., i] - s_ * D[..., j]
        Dr[..., j] = s_ * D[..., i] + c_ * D[..., j]
        _, spr = _run_aggregate(cx, agg, ta, H, Dr)
        cx.prove_eq("rotation_invariant[axis=%d]" % ax, spr.data, sp.data, tol=1e-9)


@harness("C11", "relabelling",
         quick=[dict(perm=[1, 0])], thorough=[dict(perm=[1, 0]), dict(perm=[1, 2, 0]), dict(perm=[0, 2, 1])],
         functions=[F_A + ":AbsSpectrumCalculator._calculate_aggregate", F_A + ":AbsSpectrumCalculator._excitonic_coft",
                    "quantarhei/builders/aggregate_base.py:AggregateBase.build",
                    "quantarhei/qm/corfunctions/cfmatrix.py:CorrelationFunctionMatrix.get_coft"],
         bound="dimer (thorough trimer) of molecules with different baths, built by the real Aggregate.build in the "
               "original and in the permuted molecule order; the permuted aggregate gets the permuted Hamiltonian "
               "P H P^T (= (PS) diag(w) (PS)^T) and dipoles, non-degenerate exciton energies: both spectra are equal "
               "at every point (proved transition by transition: equal dipole strength, frequency, bath function "
               "as lemmas)",
         out="that Aggregate.build itself produces the permuted H and D (decided in C03)")
def relabelling(cx, perm):
    import quantarhei as qr
    nmol = len(perm)
    reorgs = [20 + 15 * i for i in range(nmol)]
    if cx.sym:
        from symnum.core import ENGINE
        ENGINE.canonical_uf_args = True    # exp(-g(t) - i w t): the same polynomial argument -> the same term
    agg = build_aggregate(cx, nmol, Nt=4, reorgs=reorgs)
    agg2 = build_aggregate(cx, nmol, Nt=4, reorgs=reorgs, order=perm)
    N = agg.HamOp.dim
    with cx.concrete():
        ta = qr.TimeAxis(0.0, 4, 1.0)
    H, w, S = spectral_hamiltonian(cx, N, block=[[0], list(range(1, N))])
    D, ds = _site_dipoles(cx, N)
    # generic case: with degenerate exciton energies the individual transitions are not defined (only their
    # sum is), and the proof below goes transition by transition
    for a in range(1, N - 1):
        cx.assume(w[a] < w[a + 1], "non-degenerate exciton energies")
    # state k+1 of the permuted aggregate is state perm[k]+1 of the original one
    idx = [0] + [p + 1 for p in perm]
    H2 = H[numpy.ix_(idx, idx)].copy()
    D2 = D[numpy.ix_(idx, idx)].copy()
    if cx.sym:
        from symnum import npatch
        h = npatch.EIGH_HANDLER[0]
        S2 = S[idx, :].copy()
        h.register(H2, w.copy(), S2, S2.T.copy())
    cap, cap2 = [], []
    _, sp = _run_aggregate(cx, agg, ta, H, D, capture=cap)
    _, sp2 = _run_aggregate(cx, agg2, ta, H2, D2, capture=cap2)
    cx.assume_denominators_nonzero("")
    cx.prove("same_number_of_transitions", len(cap) == len(cap2))
    # lemmas: what the two runs hand to the one-transition routine is pairwise equal
    for a, (c1, c2) in enumerate(zip(cap, cap2)):
        cx.prove_eq("same_dipole_strength[%d]" % a, c2["dd"], c1["dd"], tol=1e-9, lemma=True)
        cx.prove_eq("same_transition_frequency[%d]" % a, c2["om"], c1["om"], tol=1e-9, lemma=True)
        cx.prove_eq("same_exciton_bath_function[%d]" % a, c2["ct"], c1["ct"], tol=1e-9, lemma=True)
        cx.prove_eq("same_transition_spectrum[%d]" % a, c2["out"], c1["out"], tol=1e-9, lemma=True)
    with cx.concrete():
        # the axes are concrete floats (the mean site energy summed in a different order differs by an ulp)
        same_axis = sp2.axis.length == sp.axis.length and bool(numpy.allclose(
            numpy.asarray(sp2.axis.data, dtype=float), numpy.asarray(sp.axis.data, dtype=float), rtol=0, atol=1e-12))
    cx.prove("axis", same_axis)
    cx.prove_eq("spectrum_invariant_under_relabelling", sp2.data, sp.data, tol=1e-9)


@harness("C11", "purity_with_remainder_coupling",
         quick=[dict(nmol=3)], thorough=[dict(nmol=3), dict(nmol=2)],
         functions=[F_A + ":AbsSpectrumCalculator._calculate_aggregate",
                    "quantarhei/qm/hilbertspace/hamiltonian.py:Hamiltonian.remove_cutoff_coupling",
                    "quantarhei/qm/hilbertspace/hamiltonian.py:Hamiltonian.diagonalize",
                    "quantarhei/qm/hilbertspace/operators.py:Operator.transform"],
         bound="trimer (thorough also dimer) with concrete energies and couplings, one coupling below a cut-off that has "
               "been removed from the Hamiltonian with remove_cutoff_coupling (the Hamiltonian carries a remainder "
               "coupling), symbolic dipoles: calculating the spectrum leaves the Hamiltonian, its remainder coupling "
               "and the dipole operator unchanged (to 1e-9: the concrete matrices pass through LAPACK and back; "
               "dipole components within [-10, 10])",
         out="supplied relaxation tensor")
def purity_with_remainder_coupling(cx, nmol):
    import quantarhei as qr
    agg = build_aggregate(cx, nmol, Nt=4, coupling=0.02, reorgs=[20 + 15 * i for i in range(nmol)])
    N = agg.HamOp.dim
    with cx.concrete():
        ta = qr.TimeAxis(0.0, 4, 1.0)
        # couplings are 0.02/(j-i): with three molecules 0.01 between the outer ones; cut-off between the two values
        agg.HamOp.remove_cutoff_coupling(0.015 if nmol > 2 else 0.03)
        H0 = numpy.array(agg.HamOp._data, dtype=float).copy()
        JR0 = numpy.array(agg.HamOp.JR, dtype=float).copy()
    cx.prove("has_remainder_coupling", bool(numpy.any(JR0 != 0)))
    D, ds = _site_dipoles(cx, N)
    for v in ds:
        for x in v:
            cx.assume((x <= 10) & (x >= -10) if cx.sym else abs(x) <= 10, "dipole components within [-10, 10]")
    _, sp1 = _run_aggregate(cx, agg, ta, H0, D)
    cx.assume_denominators_nonzero("")
    # the concrete Hamiltonian went through LAPACK and back: equal up to rounding
    cx.prove_close("H_unchanged", agg.HamOp._data, H0, 1e-9)
    cx.prove_close("remainder_unchanged", agg.HamOp.JR, JR0, 1e-9)
    cx.prove_close("D_unchanged", agg.TrDMOp._data, D, 1e-9)
