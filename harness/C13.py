"""C13 Fourier transforms and time/frequency axes are mutually inverse."""
import math
import numpy
from vf.framework import harness

F_DF = "quantarhei/core/dfunction.py"
F_T = "quantarhei/core/time.py"
F_W = "quantarhei/core/frequency.py"
F_V = "quantarhei/core/valueaxis.py"


from harness.common import grid_phase  # noqa: E402


def direct_sum(cx, label, tdata, wdata, f, dt, M, hermitian_ext=False):
    """sum_n f(t_n) exp(i w_k t_n) dt at every w_k (with f(-t)=conj f(t) for half axes)"""
    out = []
    for k in range(len(wdata)):
        acc = 0
        for n in range(len(tdata)):
            e = grid_phase(cx, "%s[%d,%d]" % (label, k, n), wdata[k], tdata[n], M)
            if hermitian_ext:
                if n == 0:
                    acc = acc + f[0].real if hasattr(f[0], "real") else acc + f[0]
                else:
                    term = f[n] * e
                    acc = acc + term + term.conjugate()
            else:
                acc = acc + f[n] * e
        out.append(acc * dt)
    return numpy.array(out, dtype=object if cx.sym else complex)


@harness("C13", "axis_roundtrip",
         quick=[dict(N=n, atype=a) for n in (1, 2, 3, 4, 5, 6, 7) for a in ("complete", "upper-half")
                if (n, a) != (1, "complete")],
         thorough=[dict(N=n, atype=a) for n in range(1, 17) for a in ("complete", "upper-half")
                   if (n, a) != (1, "complete")],
         functions=[F_T + ":TimeAxis.get_FrequencyAxis", F_W + ":FrequencyAxis.get_TimeAxis",
                    F_V + ":ValueAxis.__init__"],
         bound="axis length N<=7 (thorough <=16); start, step>0 symbolic reals",
         out="lengths beyond the bound; the one-point complete axis (no conjugate grid exists; the code raises IndexError)")
def axis_roundtrip(cx, N, atype):
    from quantarhei import TimeAxis, FrequencyAxis
    start = cx.real("start")
    step = cx.real("step", 0.1, 2.0)
    cx.assume(step > 0, "axis step > 0")
    t = TimeAxis(start, N, step, atype=atype)
    w = t.get_FrequencyAxis()
    t2 = w.get_TimeAxis()
    cx.prove("t.length", t2.length == N)
    cx.prove("t.atype", t2.atype == atype)
    cx.prove_eq("t.start", t2.start, t.start)
    cx.prove_eq("t.step", t2.step, t.step)
    if t2.length == N:
        cx.prove_eq("t.data", t2.data, t.data)
    # and from the frequency side
    w2 = t2.get_FrequencyAxis()
    cx.prove("w.length", w2.length == w.length)
    cx.prove_eq("w.start", w2.start, w.start)
    cx.prove_eq("w.step", w2.step, w.step)
    if w2.length == w.length:
        cx.prove_eq("w.data", w2.data, w.data)


@harness("C13", "freq_axis_roundtrip",
         quick=[dict(N=n, atype="complete") for n in (2, 3, 4, 5, 6)] +
               [dict(N=n, atype="upper-half") for n in (2, 4, 6)] +
               [dict(N=3, atype="complete", units="1/cm"), dict(N=4, atype="upper-half", units="eV")],
         thorough=[dict(N=n, atype="complete") for n in range(2, 14)] +
                  [dict(N=n, atype="upper-half") for n in range(2, 17, 2)] +
                  [dict(N=n, atype=a, units=u) for n in (3, 4) for a in ("complete", "upper-half")
                   for u in ("1/cm", "eV", "THz") if not (a == "upper-half" and n == 3)],
         functions=[F_T + ":TimeAxis.get_FrequencyAxis", F_W + ":FrequencyAxis.get_TimeAxis"],
         bound="frequency axis length N<=6 (thorough <=16; upper-half needs even N); start, step>0, time_start symbolic; "
               "with units=u the axis is created and both conversions are called inside energy_units(u), values "
               "compared inside the same context",
         out="lengths beyond the bound")
def freq_axis_roundtrip(cx, N, atype, units=None):
    import contextlib
    from quantarhei import FrequencyAxis, energy_units
    with (energy_units(units) if units else contextlib.nullcontext()):
        _freq_axis_roundtrip(cx, N, atype)


def _freq_axis_roundtrip(cx, N, atype):
    from quantarhei import FrequencyAxis
    start = cx.real("wstart")
    step = cx.real("wstep", 0.1, 2.0)
    tstart = cx.real("tstart")
    cx.assume(step > 0, "axis step > 0")
    w = FrequencyAxis(start, N, step, atype=atype, time_start=tstart)
    t = w.get_TimeAxis()
    w2 = t.get_FrequencyAxis()
    cx.prove("w.length", w2.length == N)
    cx.prove_eq("w.start", w2.start, w.start)
    cx.prove_eq("w.step", w2.step, w.step)
    cx.prove_eq("w.time_start", w2.time_start, w.time_start)
    if w2.length == N:
        cx.prove_eq("w.data", w2.data, w.data)


@harness("C13", "ft_direct_sum_complete",
         quick=[dict(N=n) for n in (2, 3, 4, 5, 6)] + [dict(N=4, window=True), dict(N=5, window=True)],
         thorough=[dict(N=n) for n in (2, 3, 4, 5, 6, 8, 10, 12, 20, 24)] +
                  [dict(N=n, window=True) for n in (3, 4, 5, 6, 8, 12)],
         functions=[F_DF + ":DFunction.get_Fourier_transform", F_T + ":TimeAxis.get_FrequencyAxis"],
         bound="with window=True the transform of f*w for an arbitrary real window function w; "
               "complete axes centred at zero, N<=6 (thorough: 2,3,4,5,6,8,10,12,20,24 - the orders whose roots of unity have closed radical forms in sqrt2, sqrt3, sqrt5); step>0 symbolic; data arbitrary complex",
         out="lengths beyond the bound")
def ft_direct_sum_complete(cx, N, window=False):
    from quantarhei import TimeAxis, DFunction
    step = cx.real("step", 0.1, 2.0)
    cx.assume(step > 0, "axis step > 0")
    f = cx.cplx_array("f", N)
    t = TimeAxis(-(N // 2) * step, N, step, atype="complete")
    if window:
        wd = cx.real_array("win", N)
        F = DFunction(t, f).get_Fourier_transform(window=DFunction(t, wd))
        f = f * wd
    else:
        F = DFunction(t, f).get_Fourier_transform()
    w = F.axis
    cx.prove("length", w.length == N)
    ref = direct_sum(cx, "ft", t.data, w.data, f, step, N)
    cx.prove_eq("ft", F.data, ref)


@harness("C13", "ft_direct_sum_upper",
         quick=[dict(N=n) for n in (1, 2, 3, 4)] + [dict(N=3, window=True)],
         thorough=[dict(N=n) for n in (1, 2, 3, 4, 5, 6, 10, 12)] + [dict(N=n, window=True) for n in (2, 3, 4, 6)],
         functions=[F_DF + ":DFunction.get_Fourier_transform", F_T + ":TimeAxis.get_FrequencyAxis"],
         bound="upper-half axes starting at 0, N<=4 (thorough <=6) points (transform length 2N); step>0 symbolic; "
               "data arbitrary complex with the Hermitian extension f(-t)=conj f(t); window=True: times an "
               "arbitrary real window",
         out="lengths beyond the bound")
def ft_direct_sum_upper(cx, N, window=False):
    from quantarhei import TimeAxis, DFunction
    step = cx.real("step", 0.1, 2.0)
    cx.assume(step > 0, "axis step > 0")
    f = cx.cplx_array("f", N)
    f[0] = f[0].real + 0 * f[0]     # Hermitian-extendable data: f(0) = conj f(0)
    t = TimeAxis(0.0, N, step)
    if window:
        wd = cx.real_array("win", N)
        F = DFunction(t, f).get_Fourier_transform(window=DFunction(t, wd))
        f = f * wd
    else:
        F = DFunction(t, f).get_Fourier_transform()
    w = F.axis
    cx.prove("length", w.length == 2 * N)
    ref = direct_sum(cx, "ft", t.data, w.data, f, step, 2 * N, hermitian_ext=True)
    cx.prove_eq("ft", F.data, ref)


@harness("C13", "ft_roundtrip",
         quick=[dict(N=n, atype="complete") for n in (2, 3, 4, 5, 6)] +
               [dict(N=n, atype="upper-half") for n in (2, 3, 4)] +
               [dict(N=3, atype="complete", units="1/cm"), dict(N=2, atype="upper-half", units="eV")],
         thorough=[dict(N=n, atype="complete") for n in (2, 3, 4, 5, 6, 8, 10, 12, 20, 24)] +
                  [dict(N=n, atype="upper-half") for n in (2, 3, 4, 5, 6, 10, 12)] +
                  [dict(N=n, atype=a, units=u) for n in (3, 4) for a in ("complete", "upper-half") for u in ("1/cm", "eV")],
         functions=[F_DF + ":DFunction.get_Fourier_transform",
                    F_DF + ":DFunction.get_inverse_Fourier_transform",
                    F_T + ":TimeAxis.get_FrequencyAxis", F_W + ":FrequencyAxis.get_TimeAxis"],
         bound="N<=6 complete / <=4 upper-half (thorough 12 / 6); start, step>0 symbolic; data arbitrary complex "
               "(upper-half: f(0) real, as the Hermitian extension requires); with units=u both transforms are called inside "
               "energy_units(u)",
         out="lengths beyond the bound")
def ft_roundtrip(cx, N, atype, units=None):
    import contextlib
    from quantarhei import energy_units
    with (energy_units(units) if units else contextlib.nullcontext()):
        _ft_roundtrip(cx, N, atype)


def _ft_roundtrip(cx, N, atype):
    from quantarhei import TimeAxis, DFunction
    step = cx.real("step", 0.1, 2.0)
    cx.assume(step > 0, "axis step > 0")
    f = cx.cplx_array("f", N)
    if atype == "complete":
        start = cx.real("start")
    else:
        start = 0.0
        f[0] = f[0].real + 0 * f[0]
    t = TimeAxis(start, N, step, atype=atype)
    fn = DFunction(t, f)
    F = fn.get_Fourier_transform()
    g = F.get_inverse_Fourier_transform()
    cx.prove("axis.length", g.axis.length == N)
    cx.prove_eq("axis.start", g.axis.start, t.start)
    cx.prove_eq("axis.step", g.axis.step, t.step)
    cx.prove_eq("data", g.data, f)


@harness("C13", "freq_ft_roundtrip",
         quick=[dict(N=n) for n in (2, 3, 4, 5, 6)] + [dict(N=3, units="1/cm")],
         thorough=[dict(N=n) for n in (2, 3, 4, 5, 6, 8, 10, 12, 20, 24)] + [dict(N=n, units=u) for n in (3, 4) for u in ("1/cm", "eV")],
         functions=[F_DF + ":DFunction.get_Fourier_transform",
                    F_DF + ":DFunction.get_inverse_Fourier_transform",
                    F_T + ":TimeAxis.get_FrequencyAxis", F_W + ":FrequencyAxis.get_TimeAxis"],
         bound="with units=u the axis is created and both transforms are called inside energy_units(u); functions on complete frequency axes, N<=6 (thorough 12); start, step>0 symbolic; data arbitrary complex",
         out="upper-half frequency-domain functions (their extension convention is not stated by the property)")
def freq_ft_roundtrip(cx, N, units=None):
    import contextlib
    from quantarhei import energy_units
    with (energy_units(units) if units else contextlib.nullcontext()):
        _freq_ft_roundtrip(cx, N)


def _freq_ft_roundtrip(cx, N):
    from quantarhei import FrequencyAxis, DFunction
    step = cx.real("wstep", 0.1, 2.0)
    start = cx.real("wstart")
    cx.assume(step > 0, "axis step > 0")
    f = cx.cplx_array("F", N)
    w = FrequencyAxis(start, N, step, atype="complete")
    fn = DFunction(w, f)
    g = fn.get_Fourier_transform().get_inverse_Fourier_transform()
    cx.prove("axis.length", g.axis.length == N)
    cx.prove_eq("axis.start", g.axis.start, w.start)
    cx.prove_eq("axis.step", g.axis.step, w.step)
    cx.prove_eq("data", g.data, f)
