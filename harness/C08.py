"""C08 Evolution superoperator is an identity-started semigroup matching propagation."""
import numpy
from vf.framework import harness
from harness.common import build_sbi, tensor_with_identities

F = "quantarhei/qm/liouvillespace/evolutionsuperoperator.py"
F_P = "quantarhei/qm/propagators/rdmpropagator.py"


def identity_sop(N):
    I = numpy.zeros((N, N, N, N), dtype=complex)
    for i in range(N):
        for j in range(N):
            I[i, j, i, j] = 1.0
    return I


def system(cx, N, Nt, m=1, symbolic_step=False):
    import quantarhei as qr
    from quantarhei.qm.liouvillespace.relaxationtensor import RelaxationTensor
    from quantarhei.qm import EvolutionSuperOperator
    ham, sbi, tb = build_sbi(cx, N, 1)
    H = cx.real_symmetric("H", N)
    ham._data = H
    R = tensor_with_identities(cx, N)
    RT = RelaxationTensor()
    RT.dim = N
    RT._data = R
    RT._data_initialized = True
    if symbolic_step:
        step = cx.real("dt", 0.05, 0.3)
        cx.assume(step > 0, "time step > 0")
        time = qr.TimeAxis(0.0, Nt, step)
    else:
        with cx.concrete():
            time = qr.TimeAxis(0.0, Nt, 1.0)
        step = 1.0
    return ham, RT, time, H, R, step


def gen_map(H, R, dt, L=4):
    """matrix (4-index) of the degree-L Taylor polynomial of exp(dt*Liouvillian) in the element basis"""
    N = H.shape[0]
    out = numpy.zeros((N, N, N, N), dtype=object)
    from harness.C02 import taylor, tensor_gen
    g = tensor_gen(H, R)
    for n in range(N):
        for m in range(N):
            E = numpy.zeros((N, N), dtype=object)
            E[...] = 0
            E[n, m] = 1
            out[:, :, n, m] = taylor(g, E, dt, L)
    return out


@harness("C08", "elemental_step",
         quick=[dict(N=2, m=1), dict(N=2, m=2), dict(N=2, m=2, form="lindblad_op")],
         thorough=[dict(N=2, m=1), dict(N=2, m=2), dict(N=2, m=3), dict(N=3, m=1)] +
                  [dict(N=2, m=k, form=f) for k in (1, 2) for f in ("lindblad_op", "lindblad_tensor")],
         functions=[F + ":EvolutionSuperOperator._elemental_step_TimeIndep", F + ":EvolutionSuperOperator.set_dense_dt",
                    F + ":EvolutionSuperOperator.__init__",
                    F_P + ":ReducedDensityMatrixPropagator.__propagate_short_exp_with_relaxation"],
         bound="N=2 (thorough 3), dense factor m<=2 (3); H real symmetric, relaxation tensor arbitrary with the C01 "
               "identities or a Lindblad form in operator / tensor representation, time step symbolic: the elementary step equals the order-4 Taylor map of exp(L dt/m) "
               "and preserves trace and Hermiticity",
         out="truncation error of the expansion; time-dependent tensors")
def elemental_step(cx, N, m, form="tensor"):
    from quantarhei.qm import EvolutionSuperOperator
    ham, RT, time, H, R, step = system(cx, N, 3, symbolic_step=True)
    gen = None
    if form != "tensor":
        from harness.C02 import make_system
        ham2, time2, RT, H, gen, extra = make_system(cx, N, 2, form)
        ham._data = H
    eso = EvolutionSuperOperator(time, ham=ham, relt=RT)
    eso.set_dense_dt(m)
    A = eso._elemental_step_TimeIndep(0.0, eso.dense_time.step, 3)
    cx.check_div_obligations("finite")
    if gen is None:
        ref = gen_map(H, R, step / m)
    else:
        from harness.C02 import taylor
        ref = numpy.zeros((N, N, N, N), dtype=object)
        for n in range(N):
            for k in range(N):
                E = numpy.zeros((N, N), dtype=object)
                E[...] = 0
                E[n, k] = 1
                ref[:, :, n, k] = taylor(gen, E, step / m, 4)
    cx.prove_eq("step_is_taylor_map", A, ref)
    cx.prove_eq("trace_preserving", numpy.einsum("aacd->cd", A), numpy.eye(N, dtype=int))
    cx.prove_eq("hermiticity_preserving", numpy.conj(A), numpy.transpose(A, (1, 0, 3, 2)))


def _havoc_step(cx, eso, N):
    """checkpoint: the elementary step (proved separately to be the Taylor map, trace- and
    Hermiticity-preserving) is replaced by an ARBITRARY 4-index array"""
    A = cx.cplx_array("A", (N, N, N, N))
    eso._elemental_step_TimeIndep = lambda t0, dens_dt, Nt: A.copy()
    return A


def power(A, k, N):
    out = identity_sop(N) if True else None
    out = numpy.array(out, dtype=object if A.dtype == object else complex)
    for _ in range(k):
        out = numpy.tensordot(A, out)
    return out


@harness("C08", "grid_bookkeeping",
         quick=[dict(N=2, m=1, Nt=3), dict(N=2, m=2, Nt=2), dict(N=1, m=3, Nt=4)],
         thorough=[dict(N=2, m=1, Nt=4), dict(N=2, m=2, Nt=3), dict(N=2, m=3, Nt=2), dict(N=1, m=3, Nt=5),
                   dict(N=1, m=2, Nt=5)],
         functions=[F + ":EvolutionSuperOperator.calculate", F + ":EvolutionSuperOperator._initialize_data",
                    F + ":EvolutionSuperOperator._one_step_with_dense_TimeIndep",
                    F + ":EvolutionSuperOperator._calculate_remainig_using_first_interval",
                    F + ":EvolutionSuperOperator.calculate_next", F + ":EvolutionSuperOperator.apply",
                    F + ":EvolutionSuperOperator.at"],
         bound="elementary step abstracted to an ARBITRARY 4-index array A (checkpoint; its properties are the "
               "subject of `elemental_step`): N=2 with dense factor m<=2 and <=3 grid points, N=1 with m=3 and 4 "
               "points (thorough one more each): U(t_i) = A^(m*i), identity at t_0, semigroup on the grid, jit mode "
               "(save and no-save) equals all mode, apply(rho) = U(t_i) rho",
         out="Gaussian pure dephasing and time-dependent tensors (different code paths)")
def grid_bookkeeping(cx, N, m, Nt):
    import quantarhei as qr
    from quantarhei.qm import EvolutionSuperOperator
    ham, RT, time, H, R, step = system(cx, N, Nt)
    eso = EvolutionSuperOperator(time, ham=ham, relt=RT)
    eso.set_dense_dt(m)
    A = _havoc_step(cx, eso, N)
    eso.calculate()
    U = eso.data
    cx.prove("shape", U.shape == (Nt, N, N, N, N))
    cx.prove_eq("identity_at_zero", U[0], identity_sop(N))
    for i in range(1, Nt):
        cx.prove_eq("power[%d]" % i, U[i], power(A, m * i, N))
    for i in range(1, Nt):
        for j in range(1, Nt - i):
            cx.prove_eq("semigroup[%d,%d]" % (i, j), U[i + j], numpy.tensordot(U[i], U[j]))
    # jit mode, with and without saving
    for save in (True, False):
        e2 = EvolutionSuperOperator(time, ham=ham, relt=RT, mode="jit")
        e2.set_dense_dt(m)
        e2._elemental_step_TimeIndep = lambda t0, dens_dt, Nt_: A.copy()
        for i in range(1, Nt):
            e2.calculate_next(save=save)
            got = e2.data[i] if save else e2.data
            cx.prove_eq("jit_save%s[%d]" % (save, i), got, U[i])
    # application to a state
    with cx.concrete():
        rho = qr.ReducedDensityMatrix(dim=N)
    X = cx.cplx_array("X", (N, N))
    rho._data = X.copy()
    rt = eso.apply(time, rho)
    for i in range(Nt):
        cx.prove_eq("apply_all[%d]" % i, rt.data[i], numpy.tensordot(U[i], X))
    for i in range(Nt):
        r1 = eso.apply(float(time.data[i]), rho)
        cx.prove_eq("apply_at[%d]" % i, r1._data, numpy.tensordot(U[i], X))
        cx.prove_eq("at[%d]" % i, eso.at(float(time.data[i])).data, U[i])


@harness("C08", "matches_propagation",
         quick=[dict(N=2, Nt=2)], thorough=[dict(N=2, Nt=2), dict(N=2, Nt=3)],
         functions=[F + ":EvolutionSuperOperator.calculate", F + ":EvolutionSuperOperator.apply",
                    F_P + ":ReducedDensityMatrixPropagator.propagate"],
         bound="no abstraction: N=2, dense factor 1, <=3 grid points: U(t_i) applied to an arbitrary state equals "
               "direct propagation of that state with the same Hamiltonian and tensor",
         out="")
def matches_propagation(cx, N, Nt):
    import quantarhei as qr
    from quantarhei.qm import EvolutionSuperOperator, ReducedDensityMatrixPropagator
    ham, RT, time, H, R, step = system(cx, N, Nt)
    eso = EvolutionSuperOperator(time, ham=ham, relt=RT)
    eso.calculate()
    with cx.concrete():
        rho = qr.ReducedDensityMatrix(dim=N)
    X = cx.hermitian("rho", N)
    rho._data = X.copy()
    rt = eso.apply(time, rho)
    prop = ReducedDensityMatrixPropagator(time, ham, RTensor=RT)
    pr = prop.propagate(rho)
    for i in range(Nt):
        cx.prove_eq("same[%d]" % i, rt.data[i], pr.data[i])
    cx.prove_eq("trace_preserving", numpy.einsum("taacd->tcd", eso.data),
                numpy.array([numpy.eye(N, dtype=int)] * Nt))
    cx.prove_eq("hermiticity_preserving", numpy.conj(eso.data), numpy.transpose(eso.data, (0, 2, 1, 4, 3)))


@harness("C08", "in_basis_context",
         quick=[dict(N=2, Nt=2)], thorough=[dict(N=2, Nt=2), dict(N=2, Nt=3)],
         functions=[F + ":EvolutionSuperOperator.calculate",
                    "quantarhei/qm/liouvillespace/superoperator.py:SuperOperator.transform",
                    "quantarhei/core/managers.py:eigenbasis_of.__enter__"],
         bound="N=2, <=3 grid points, elementary step abstracted to an arbitrary array: a superoperator calculated "
               "outside any context and read inside eigenbasis_of(H) is the conjugated one at every time (identity at "
               "t_0, semigroup on the grid hold there too) and is restored on exit",
         out="")
def in_basis_context(cx, N, Nt, planes=None):
    import quantarhei as qr
    from quantarhei.qm import EvolutionSuperOperator
    from harness.common import spectral_hamiltonian
    ham, RT, time, H, R, step = system(cx, N, Nt)
    Hs, w, S = spectral_hamiltonian(cx, N, planes=planes)
    ham._data = Hs.copy()
    eso = EvolutionSuperOperator(time, ham=ham, relt=RT)
    A = _havoc_step(cx, eso, N)
    eso.calculate()
    U_site = eso._data.copy()
    with qr.eigenbasis_of(ham):
        Sx = qr.Manager().basis_transformations[-1]
        U = eso.data
        for i in range(Nt):
            ref = numpy.einsum("ia,jb,ijkl,kc,ld->abcd", Sx, Sx, U_site[i], Sx, Sx)
            cx.prove_eq("inside/conjugated[%d]" % i, U[i], ref, tol=1e-7)
        cx.prove_eq("inside/identity_at_zero", U[0], identity_sop(N), tol=1e-7)
        if Nt > 2:
            cx.prove_eq("inside/semigroup", U[2], numpy.tensordot(U[1], U[1]), tol=1e-7)
        # the superoperator at one time, obtained inside the context
        t1 = float(time.data[1])
        U1 = eso.at(t1)
        cx.prove_eq("inside/at_is_the_slice", U1.data, U[1], tol=1e-7)
    cx.prove_eq("after/restored", eso._data, U_site, tol=1e-7)
    cx.prove_eq("after/at_object_in_site_basis", U1.data, U_site[1], tol=1e-7)
    # ... and obtained outside, then used inside together with its parent
    V1 = eso.at(t1)
    with qr.eigenbasis_of(ham):
        cx.prove_eq("again/at_object_and_parent_agree", V1.data, eso.data[1], tol=1e-7)
    cx.prove_eq("again/restored", eso._data, U_site, tol=1e-7)


@harness("C08", "after_transform",
         quick=[dict(N=2, Nt=2)], thorough=[dict(N=2, Nt=2), dict(N=3, Nt=2)],
         functions=["quantarhei/qm/liouvillespace/superoperator.py:SuperOperator.transform",
                    F + ":EvolutionSuperOperator.calculate"],
         bound="N=2, 2 grid points, elementary step abstracted to an arbitrary array: after transform(S) with an "
               "arbitrary orthogonal S (the composite transformation of nested contexts is a rotation) the "
               "superoperator is still the identity at t_0 and each U(t_i) is the conjugated one",
         out="")
def after_transform(cx, N, Nt):
    from quantarhei.qm import EvolutionSuperOperator
    ham, RT, time, H, R, step = system(cx, N, Nt)
    eso = EvolutionSuperOperator(time, ham=ham, relt=RT)
    A = _havoc_step(cx, eso, N)
    eso.calculate()
    U_site = eso._data.copy()
    if cx.sym:
        from symnum import linalg, npatch
        S = linalg.givens_orthogonal(N, "S")
        npatch.tag_inverse(S, S.T.copy())
    else:
        c, s_ = cx.real("S.c0", 0.3, 0.9), cx.real("S.s0", 0.3, 0.9)
        nrm = (c * c + s_ * s_) ** 0.5
        c, s_ = c / nrm, s_ / nrm
        S = numpy.array([[c, -s_], [s_, c]])
        for i in range(N):
            S[:, i] *= (1.0 if cx.real("S.sg%d" % i) >= 0 else -1.0)
    eso.transform(S)
    U = eso._data
    for i in range(Nt):
        ref = numpy.einsum("ia,jb,ijkl,kc,ld->abcd", S, S, U_site[i], S, S)
        cx.prove_eq("conjugated[%d]" % i, U[i], ref, tol=1e-7)
    cx.prove_eq("identity_at_zero", U[0], identity_sop(N), tol=1e-7)
