"""C02 Propagated density matrices stay valid states and follow the generator."""
import types
import numpy
from vf.framework import harness
from harness.common import build_sbi, tensor_with_identities

F_P = "quantarhei/qm/propagators/rdmpropagator.py"
F_SV = "quantarhei/qm/propagators/svpropagator.py"
F_H = "quantarhei/qm/hilbertspace/hamiltonian.py"
F_DM = "quantarhei/qm/propagators/dmevolution.py"
F_LF = "quantarhei/qm/liouvillespace/lindbladform.py"


def comm_gen(H):
    return lambda X: -1j * (numpy.dot(H, X) - numpy.dot(X, H))


def tensor_gen(H, R):
    c = comm_gen(H)
    return lambda X: c(X) + numpy.tensordot(R, X)


def gksl_gen(H, K, g):
    """-i[H,X] + sum_m g_m (K_m X K_m^T - 1/2 {K_m^T K_m, X})  for real operators K_m"""
    c = comm_gen(H)

    def L(X):
        out = c(X)
        for m in range(K.shape[0]):
            Km, Kt = K[m], K[m].T
            KtK = numpy.dot(Kt, Km)
            out = out + g[m] * (numpy.dot(Km, numpy.dot(X, Kt))
                                - 0.5 * numpy.dot(KtK, X) - 0.5 * numpy.dot(X, KtK))
        return out
    return L


def taylor(L, X, dt, order):
    acc = X
    term = X
    for l in range(1, order + 1):
        term = L(term) * (dt / l)
        acc = acc + term
    return acc


def make_system(cx, N, Nt, kind, nb=1, cplxH=False):
    """real Hamiltonian / relaxation objects with symbolic storage"""
    import quantarhei as qr
    from quantarhei.qm import LindbladForm, TDRedfieldRelaxationTensor
    from quantarhei.qm.liouvillespace.relaxationtensor import RelaxationTensor
    ham, sbi, time_b = build_sbi(cx, N, nb, Nt=max(Nt, 4))
    with cx.concrete():
        time = qr.TimeAxis(0.0, Nt, 1.0)
    H = cx.hermitian("H", N) if cplxH else cx.real_symmetric("H", N)
    ham._data = H
    RT, gen = None, comm_gen(H)
    extra = {}
    if kind == "tensor":
        R = tensor_with_identities(cx, N)
        RT = RelaxationTensor()
        RT.dim = N
        RT._data = R
        RT._data_initialized = True
        gen = tensor_gen(H, R)
    elif kind in ("lindblad_op", "lindblad_tensor"):
        K = cx.real_array("K", (nb, N, N))
        g = [cx.real("g%d" % m, 0.0, 0.2) for m in range(nb)]
        sbi.KK = K
        sbi.rates = g
        RT = LindbladForm(ham, sbi, as_operators=(kind == "lindblad_op"))
        gen = gksl_gen(H, K, g)
        extra = dict(K=K, g=g)
    elif kind == "td_tensor":
        RT = TDRedfieldRelaxationTensor(ham, sbi, initialize=False)
        Ntb = sbi.TimeAxis.length
        data = numpy.empty((Ntb, N, N, N, N), dtype=object if cx.sym else complex)
        for t in range(Ntb):
            data[t] = tensor_with_identities(cx, N, "R%d_" % t)
        RT._data = data
        RT.Nt = Ntb
        RT._data_initialized = True
        RT.is_time_dependent = True
        extra = dict(Rt=data)
        gen = None
    elif kind == "td_operators":
        # the real time-dependent Redfield tensor in operator form (K_m symbolic, bath integrals = spline stub)
        from harness.common import set_symmetric_K
        set_symmetric_K(cx, sbi, N)
        if cx.sym:
            from symnum import linalg
            linalg.use_eigh(eigen_equation=False)
        RT = TDRedfieldRelaxationTensor(ham, sbi, as_operators=True)
        gen = None
    return ham, time, RT, H, gen, extra


def initial_state(cx, N):
    import quantarhei as qr
    rho = cx.hermitian("rho", N)
    if cx.sym:
        cx.assume(numpy.trace(rho).real == 1, "unit trace initial state")
    else:
        rho = rho / numpy.trace(rho)
    with cx.concrete():
        rhoi = qr.ReducedDensityMatrix(dim=N)
    rhoi._data = rho.copy()
    return rhoi, rho


METHOD = {2: "short-exp-2", 4: "short-exp-4", 6: "short-exp-6"}


@harness("C02", "propagate",
         quick=[dict(N=2, L=2, Nt=3, Nref=1, kind="none"), dict(N=2, L=4, Nt=2, Nref=1, kind="tensor"),
                dict(N=2, L=2, Nt=2, Nref=2, kind="lindblad_op"), dict(N=2, L=2, Nt=2, Nref=1, kind="lindblad_tensor"),
                dict(N=2, L=2, Nt=3, Nref=1, kind="td_tensor"), dict(N=3, L=2, Nt=2, Nref=1, kind="tensor"),
                dict(N=2, L=6, Nt=2, Nref=1, kind="none"), dict(N=2, L=2, Nt=2, Nref=1, kind="none", cplxH=True),
                dict(N=2, L=2, Nt=2, Nref=1, kind="tensor", cplxH=True)],
         thorough=[dict(N=2, L=4, Nt=2, Nref=1, kind=k, cplxH=True) for k in ("none", "tensor", "lindblad_op")] +[dict(N=2, L=l, Nt=2, Nref=r, kind=k) for l in (2, 4, 6) for r in (1, 2)
                   for k in ("none", "tensor", "lindblad_op", "lindblad_tensor")
                   if not (l == 6 and r == 2) and not (l == 4 and r == 2 and k.startswith("lindblad"))] +
                  [dict(N=2, L=2, Nt=3, Nref=1, kind=k) for k in ("none", "tensor", "lindblad_op", "td_tensor")] +
                  [dict(N=3, L=2, Nt=2, Nref=1, kind="tensor"),
                   dict(N=3, L=2, Nt=2, Nref=1, kind="lindblad_op"), dict(N=3, L=4, Nt=2, Nref=1, kind="none")],
         functions=[F_P + ":ReducedDensityMatrixPropagator.propagate",
                    F_P + ":ReducedDensityMatrixPropagator.__propagate_short_exp",
                    F_P + ":ReducedDensityMatrixPropagator.__propagate_short_exp_with_relaxation",
                    F_P + ":ReducedDensityMatrixPropagator.__propagate_short_exp_with_rel_operators",
                    F_P + ":ReducedDensityMatrixPropagator.__propagate_short_exp_with_TD_relaxation",
                    F_P + ":ReducedDensityMatrixPropagator._INIT_EXP", F_P + ":ReducedDensityMatrixPropagator._INIT_RWA",
                    F_P + ":_COM", F_P + ":_TTI", F_P + ":_OTI", F_LF + ":LindbladForm._implementation"],
         bound="whole real propagate() runs without abstraction: N=2 (3), expansion order L in {2,4,6}, <=3 stored "
               "times, refinement <=2; generator: none / arbitrary tensor with the C01 identities / Lindblad form "
               "in operator and tensor representation / time-dependent tensor; H real symmetric (and complex "
               "Hermitian instances), rho0 Hermitian "
               "with unit trace, dt symbolic",
         out="order 4 with refinement 2 for the Lindblad forms and order 4 for the time-dependent tensor (terms too large for the solver; the inductive kernel lemmas cover every order and refinement); the size of the truncation error and of rounding (the identity with the degree-L Taylor polynomial of "
             "exp(L dt) is what is decided); field-driven variants")
def propagate(cx, N, L, Nt, Nref, kind, cplxH=False):
    from quantarhei.qm import ReducedDensityMatrixPropagator
    ham, time, RT, H, gen, extra = make_system(cx, N, Nt, kind, cplxH=cplxH)
    rhoi, rho0 = initial_state(cx, N)
    prop = ReducedDensityMatrixPropagator(time, ham, RTensor=RT)
    dt = cx.real("dt", 0.01, 0.2)
    prop.Odt = dt
    prop.dt = dt
    if kind == "td_tensor":
        # time-local propagation samples the tensor on the bath time axis: same step here
        RT.SystemBathInteraction.TimeAxis.step = 1.0
        prop.TimeAxis.step = 1.0
    pr = prop.propagate(rhoi, method=METHOD[L], Nref=Nref)
    cx.check_div_obligations("finite")
    cx.prove("stored_shape", pr.data.shape == (Nt, N, N))
    cx.prove_eq("initial", pr.data[0], rho0)
    ref = rho0
    for i in range(1, Nt):
        cx.prove_eq("trace[%d]" % i, numpy.trace(pr.data[i]), 1)
        cx.prove_eq("hermitian[%d]" % i, pr.data[i], numpy.conj(pr.data[i].T))
        if kind == "td_tensor":
            # generator at stored index i uses the tensor sampled at bath index i (first step: index 1)
            g_i = tensor_gen(H, extra["Rt"][i])
            ref = taylor(g_i, ref, 1.0, L)     # the TD branch steps with the bath-axis step (1.0 here)
        else:
            for _ in range(Nref):
                ref = taylor(gen, ref, dt / Nref, L)
        cx.prove_eq("taylor[%d]" % i, pr.data[i], ref)
    if Nref > 1:
        # the same refined call again on the same propagator gives the same states
        pr2 = prop.propagate(rhoi, method=METHOD[L], Nref=Nref)
        cx.prove_eq("refined_call_repeated", pr2.data, pr.data, tol=1e-9)
    if kind == "none":
        E0 = numpy.trace(numpy.dot(H, rho0))
        for i in range(1, Nt):
            cx.prove_eq("energy[%d]" % i, numpy.trace(numpy.dot(H, pr.data[i])), E0)


@harness("C02", "statevector",
         quick=[dict(N=2, L=4, Nt=3, Nref=1), dict(N=3, L=2, Nt=2, Nref=2)],
         thorough=[dict(N=n, L=l, Nt=3, Nref=r) for n in (2, 3) for l in (2, 4, 6) for r in (1, 2)
                   if not (n == 3 and l == 6)],
         functions=[F_SV + ":StateVectorPropagator._propagate_short_exp", F_SV + ":StateVectorPropagator.propagate",
                    F_SV + ":StateVectorPropagator.setDtRefinement"],
         bound="N<=3, order L in {2,4,6}, 3 stored times, refinement <=2; H real symmetric, psi0 complex, dt symbolic",
         out="truncation error; time-dependent / non-linear Hamiltonian callbacks")
def statevector(cx, N, L, Nt, Nref):
    import quantarhei as qr
    from quantarhei.qm.propagators.svpropagator import StateVectorPropagator
    with cx.concrete():
        time = qr.TimeAxis(0.0, Nt, 1.0)
        ham = qr.Hamiltonian(data=numpy.diag(numpy.arange(N, dtype=float)))
        psii = qr.StateVector(N)
    H = cx.real_symmetric("H", N)
    ham._data = H
    psi0 = cx.cplx_array("psi", N)
    psii._data = psi0.copy()
    prop = StateVectorPropagator(time, ham)
    dt = cx.real("dt", 0.01, 0.2)
    prop.Odt = dt
    prop.dt = dt
    prop.setDtRefinement(Nref)
    pr = prop.propagate(psii, L=L)
    gen = lambda v: -1j * numpy.dot(H, v)
    ref = psi0
    cx.prove_eq("initial", pr.data[0], psi0)
    for i in range(1, Nt):
        for _ in range(Nref):
            ref = taylor(gen, ref, dt / Nref, L)
        cx.prove_eq("taylor[%d]" % i, pr.data[i], ref)


@harness("C02", "rwa_bookkeeping",
         quick=[dict(N=3, blocks=[0, 1])], thorough=[dict(N=3, blocks=[0, 1]), dict(N=4, blocks=[0, 1, 3]),
                                                    dict(N=2, blocks=[0, 1])],
         functions=[F_H + ":Hamiltonian.set_rwa", F_H + ":Hamiltonian.get_RWA_skeleton",
                    F_H + ":Hamiltonian.get_RWA_data", F_DM + ":DensityMatrixEvolution.convert_from_RWA",
                    F_DM + ":DensityMatrixEvolution.convert_to_RWA",
                    F_P + ":ReducedDensityMatrixPropagator._INIT_RWA", F_P + ":ReducedDensityMatrixPropagator._CLOSE_RWA"],
         bound="N<=4, up to 3 RWA blocks, 3 stored times; H, stored data symbolic; exp(-i Omega t) as uninterpreted "
               "Cos/Sin of the occurring arguments",
         out="equality of rotating-frame and laboratory-frame dynamics beyond the bookkeeping (it holds only within "
             "the truncation error of the expansion)")
def rwa_bookkeeping(cx, N, blocks):
    import quantarhei as qr
    from quantarhei.qm import ReducedDensityMatrixPropagator
    with cx.concrete():
        time = qr.TimeAxis(0.0, 3, 1.0)
        ham = qr.Hamiltonian(data=numpy.diag(numpy.arange(N, dtype=float)))
    H = cx.real_symmetric("H", N)
    ham._data = H
    ham.set_rwa(blocks)
    # block averages of the diagonal
    bounds = list(blocks) + [N]
    om = [None] * N
    for b in range(len(blocks)):
        idx = list(range(bounds[b], bounds[b + 1]))
        avg = sum(H[i, i] for i in idx) / len(idx)
        for i in idx:
            om[i] = avg
    skel = ham.get_RWA_skeleton()
    for i in range(N):
        cx.prove_eq("skeleton[%d]" % i, skel[i], om[i])
    cx.prove_eq("rwa_data", ham.get_RWA_data(), H - numpy.diag(numpy.array(om, dtype=object if cx.sym else float)))
    # a propagator with RWA uses exactly that matrix and flags its result
    rhoi, rho0 = initial_state(cx, N)
    prop = ReducedDensityMatrixPropagator(time, ham)
    cx.prove_eq("propagator_uses_rwa_data", prop._INIT_RWA(), ham.get_RWA_data())
    pr = prop.propagate(rhoi, method="short-exp-2")
    cx.prove("flagged_in_rwa", pr.is_in_rwa is True)
    # conversion back: element (a,b) at stored index i gets exp(-i(Om_a - Om_b) t_i)
    stored = pr.data.copy()
    pr.convert_from_RWA(ham)
    cx.prove("flag_cleared", pr.is_in_rwa is False)
    for i, t in enumerate(time.data):
        for a in range(N):
            for b in range(N):
                ph = numpy.exp(-1j * om[a] * t) * numpy.conj(numpy.exp(-1j * om[b] * t))
                cx.prove_eq("phase[%d,%d,%d]" % (i, a, b), pr.data[i, a, b], ph * stored[i, a, b], tol=1e-7)


F_SVE = "quantarhei/qm/propagators/statevectorevolution.py"


@harness("C02", "statevector_views",
         quick=[dict(N=2, rwa=False), dict(N=3, rwa=True)],
         thorough=[dict(N=n, rwa=r) for n in (2, 3) for r in (False, True)] + [dict(N=4, rwa=True, blocks=[0, 1, 3])],
         functions=[F_SVE + ":StateVectorEvolution.get_DensityMatrixEvolution",
                    F_SVE + ":StateVectorEvolution.convert_from_RWA", F_SVE + ":StateVectorEvolution.convert_to_RWA",
                    "quantarhei/qm/propagators/svpropagator.py:StateVectorPropagator.propagate"],
         bound="N<=3 (thorough 4), 3 stored times, order 2; H real symmetric, psi0 complex (arbitrary relative "
               "phases): the density-matrix evolution derived from a state-vector evolution is |psi_i><psi_i| at "
               "EVERY stored index; for a Hamiltonian with RWA information the propagator uses H - Omega, flags the "
               "result, and convert_from_RWA multiplies component a at stored index i by exp(-i Omega_a t_i) "
               "(convert_to_RWA undoes it)",
         out="equality of rotating-frame and laboratory-frame dynamics beyond the bookkeeping (truncation error)")
def statevector_views(cx, N, rwa, blocks=None):
    import quantarhei as qr
    from quantarhei.qm.propagators.svpropagator import StateVectorPropagator
    with cx.concrete():
        time = qr.TimeAxis(0.0, 3, 1.0)
        ham = qr.Hamiltonian(data=numpy.diag(numpy.arange(N, dtype=float)))
        psii = qr.StateVector(N)
    H = cx.real_symmetric("H", N)
    ham._data = H
    blocks = blocks or [0, 1]
    om = [0] * N
    if rwa:
        ham.set_rwa(blocks)
        bounds = list(blocks) + [N]
        for b in range(len(blocks)):
            idx = list(range(bounds[b], bounds[b + 1]))
            avg = sum(H[i, i] for i in idx) / len(idx)
            for i in idx:
                om[i] = avg
    psi0 = cx.cplx_array("psi", N)
    psii._data = psi0.copy()
    prop = StateVectorPropagator(time, ham)
    pr = prop.propagate(psii, L=2)
    stored = pr.data.copy()
    # the generator actually used
    Heff = H - numpy.diag(numpy.array(om, dtype=object if cx.sym else float)) if rwa else H
    gen = lambda v: -1j * numpy.dot(Heff, v)
    ref = psi0
    for i in range(1, 3):
        ref = taylor(gen, ref, time.step, 2)
        cx.prove_eq("propagated_with_rwa_hamiltonian[%d]" % i if rwa else "propagated[%d]" % i, stored[i], ref)
    # density-matrix view
    try:
        dme = pr.get_DensityMatrixEvolution()
    except Exception as e:      # noqa: BLE001
        cx.fail("density_matrix_view", "%s: %s" % (type(e).__name__, str(e)[:100]))
        return
    for i in range(3):
        outer = numpy.outer(stored[i], numpy.conj(stored[i]))
        cx.prove_eq("density_matrix_view[%d]" % i, dme.data[i], outer, tol=1e-9)
    if not rwa:
        # dynamics computed in the laboratory frame: a conversion request is the identity (as it is for
        # density-matrix evolutions)
        try:
            pr.convert_from_RWA(ham)
        except Exception as e:      # noqa: BLE001
            cx.fail("lab_frame_conversion_is_identity", "%s: %s" % (type(e).__name__, str(e)[:100]))
            return
        cx.prove_eq("lab_frame_conversion_is_identity", pr.data, stored, tol=1e-12)
        return
    cx.prove("flagged_in_rwa", getattr(pr, "is_in_rwa", None) is True)
    try:
        pr.convert_from_RWA(ham)
    except Exception as e:      # noqa: BLE001
        cx.fail("converted_from_rwa", "%s: %s" % (type(e).__name__, str(e)[:100]))
        return
    cx.prove("flag_cleared", pr.is_in_rwa is False)
    for i, t in enumerate(time.data):
        for a in range(N):
            ph = numpy.exp(-1j * om[a] * t)
            cx.prove_eq("converted_from_rwa[%d,%d]" % (i, a), pr.data[i, a], ph * stored[i, a], tol=1e-7)
    pr.convert_to_RWA(ham)
    cx.prove_eq("back_to_rwa", pr.data, stored, tol=1e-7)


@harness("C02", "pure_dephasing",
         quick=[dict(N=2, dtype="Lorentzian", Nref=2, concrete_rates=True), dict(N=2, dtype="Gaussian", Nref=2, concrete_rates=True),
                dict(N=2, dtype="Lorentzian"), dict(N=2, dtype="Gaussian"), dict(N=2, dtype="Lorentzian", Nref=2),
                dict(N=2, dtype="Gaussian", Nref=2, form="operators")],
         thorough=[dict(N=n, dtype=d, Nref=r, form=f) for n in (2, 3) for d in ("Lorentzian", "Gaussian")
                   for r in (1, 2) for f in ("tensor", "operators") if not (n == 3 and r == 2)] +
                  [dict(N=2, dtype=d, Nref=3) for d in ("Lorentzian", "Gaussian")],
         functions=[F_P + ":ReducedDensityMatrixPropagator._BOOT_DEPH",
                    F_P + ":ReducedDensityMatrixPropagator._APPLY_DEPH",
                    F_P + ":ReducedDensityMatrixPropagator.__propagate_short_exp_with_relaxation",
                    F_P + ":ReducedDensityMatrixPropagator.__propagate_short_exp_with_rel_operators"],
         bound="N<=3, 2 stored times, order 2, refinement 1-3 (3 stored times with refinement 3 did not finish in 25 "
               "minutes); dephasing-rate matrix symmetric with zero diagonal "
               "(documented form), generator an arbitrary tensor with the C01 identities or a Lindblad form in operator "
               "representation; exp uninterpreted: every stored state equals the alternation of one Taylor sub-step "
               "and the element-wise dephasing factor of THAT sub-step - exp(-gamma dt_sub) (Lorentzian), "
               "exp(-gamma (t_{k+1}^2 - t_k^2)/2) written as exp(-gamma dt_sub^2/2) exp(-gamma dt_sub t_k) (Gaussian)",
         out="values of exp")
def pure_dephasing(cx, N, dtype, Nref=1, form="tensor", Nt=2, concrete_rates=False):
    import quantarhei as qr
    from quantarhei.qm import ReducedDensityMatrixPropagator
    from quantarhei.qm.liouvillespace.puredephasing import PureDephasing
    ham, time, RT, H, gen, extra = make_system(cx, N, Nt, "tensor" if form == "tensor" else "lindblad_op")
    rhoi, rho0 = initial_state(cx, N)
    with cx.concrete():
        pd = PureDephasing(drates=numpy.zeros((N, N)), dtype=dtype)
    if concrete_rates:
        # concrete dephasing rates and step: the factors are Exp of distinct constants, so a factor built from
        # the wrong step is refuted by a trivial query (a cheap companion of the fully symbolic instances)
        gam = cx.const_array(numpy.array([[0.0, 0.125], [0.125, 0.0]]) if N == 2 else
                             (numpy.ones((N, N)) - numpy.eye(N)) * 0.125)
        dt = 0.25
    else:
        gam = cx.real_symmetric("gam", N, zero_diag=True)
        dt = cx.real("dt", 0.01, 0.2)
    pd.data = gam.copy()
    prop = ReducedDensityMatrixPropagator(time, ham, RTensor=RT, PDeph=pd)
    prop.Odt = dt
    prop.dt = dt
    pr = prop.propagate(rhoi, method="short-exp-2", Nref=Nref)
    sub = dt / Nref
    state = rho0
    for i in range(1, Nt):
        t_start = float(time.data[i - 1])
        for jj in range(Nref):
            state = taylor(gen, state, sub, 2)
            if dtype == "Lorentzian":
                fac = numpy.exp(-gam * sub)
            else:
                tt = t_start + jj * sub
                fac = numpy.exp(-gam * (sub ** 2) / 2.0) * numpy.exp(-(gam * sub) * tt)
            state = state * fac
        d = pr.data[i]
        cx.prove_eq("trace[%d]" % i, numpy.trace(d), 1)
        cx.prove_eq("hermitian[%d]" % i, d, numpy.conj(d.T))
        cx.prove_eq("dephased_substeps[%d]" % i, d, state, tol=1e-9)
    ref = taylor(gen, rho0, sub, 2)
    if Nref == 1:
        for a in range(N):
            cx.prove_eq("diagonal_untouched[%d]" % a, pr.data[1][a, a], ref[a, a])


@harness("C02", "kernel_lemmas",
         quick=[dict(N=3, nb=2)], thorough=[dict(N=3, nb=2), dict(N=4, nb=2), dict(N=2, nb=3)],
         functions=[F_P + ":_COM", F_P + ":_TTI", F_P + ":_OTI"],
         bound="inductive step for any number of steps, refinements and orders: N<=3 (thorough 4), <=2 operator "
               "components; for an ARBITRARY Hermitian X, Hermitian H, tensor with the C01 identities / operators "
               "K real, Lambda complex, expansion index l and dt symbolic: one sub-step increment is traceless and "
               "Hermitian, so every partial sum of the expansion of a unit-trace Hermitian state keeps trace 1 and "
               "Hermiticity",
         out="")
def kernel_lemmas(cx, N, nb):
    from quantarhei.qm.propagators.rdmpropagator import _COM, _TTI, _OTI
    H = cx.hermitian("H", N)
    X = cx.hermitian("X", N)
    dt = cx.real("dt", 0.01, 0.2)
    R = tensor_with_identities(cx, N)
    for ll in (1, 3):
        inc = -_COM(H, ll, dt, X)
        cx.prove_eq("COM_traceless[l=%d]" % ll, numpy.trace(inc), 0)
        cx.prove_eq("COM_hermitian[l=%d]" % ll, inc, numpy.conj(inc.T))
        y = numpy.zeros((N, N), dtype=complex)
        _TTI(y, R, 0.0, ll, dt, X, L=4)
        cx.prove_eq("TTI_traceless[l=%d]" % ll, numpy.trace(y), 0)
        cx.prove_eq("TTI_hermitian[l=%d]" % ll, y, numpy.conj(y.T))
        cx.prove_eq("TTI_value[l=%d]" % ll, y, (dt / ll) * numpy.tensordot(R, X))
    Km = cx.real_array("K", (nb, N, N))
    Lm = cx.cplx_array("L", (nb, N, N))
    Ld = numpy.conj(numpy.transpose(Lm, (0, 2, 1)))
    Kd = numpy.transpose(Km, (0, 2, 1))
    y = numpy.zeros((N, N), dtype=complex)
    _OTI(y, Km, Kd, Lm, Ld, 2, dt, X)
    cx.prove_eq("OTI_traceless", numpy.trace(y), 0)
    cx.prove_eq("OTI_hermitian", y, numpy.conj(y.T))
