"""C10 Vibronic structure follows the displaced-oscillator model."""
import itertools
import numpy
from vf.framework import harness

F_AB = "quantarhei/builders/aggregate_base.py"
F_AS = "quantarhei/builders/aggregate_states.py"
F_MO = "quantarhei/builders/modes.py"


def vib_aggregate(cx, nmol, nmodes, nmax):
    """aggregate of two-level molecules with harmonic modes; electronic energies, couplings and
    dipoles symbolic; the Franck-Condon overlap matrix of a given shift difference is an
    UNINTERPRETED matrix FC(d)[n,m] (its values come from exp of a 100-level matrix)"""
    import quantarhei as qr
    hrs = {}
    with cx.concrete():
        mols = []
        for i in range(nmol):
            m = qr.Molecule(name="M%d" % i, elenergies=[0.0, 1.0])
            for k in range(nmodes[i] if isinstance(nmodes, (list, tuple)) else nmodes):
                mod = qr.Mode(0.01 * (k + 1))
                m.add_Mode(mod)
                mod.set_nmax(0, nmax[0])
                mod.set_nmax(1, nmax[1])
                hr = 0.1 * (1 + i) + 0.07 * k
                mod.set_HR(1, hr)
                hrs[(i, k)] = hr
            mols.append(m)
        agg = qr.Aggregate(name="A", molecules=mols)
        agg.init_coupling_matrix()
    g = [cx.real("g%d" % i, 0.0, 0.1) for i in range(nmol)]
    e = [cx.real("e%d" % i, 1.0, 2.0) for i in range(nmol)]
    d = [cx.real_array("d%d" % i, 3) for i in range(nmol)]
    J = cx.real_symmetric("J", nmol, zero_diag=True)
    for i, m in enumerate(mols):
        en = numpy.empty(2, dtype=object if cx.sym else float)
        en[0], en[1] = g[i], e[i]
        m.elenergies = en
        dm = numpy.zeros((2, 2, 3)) if not cx.sym else __import__("symnum").core.zeros((2, 2, 3))
        dm[0, 1, :] = d[i]
        dm[1, 0, :] = d[i]
        m.dmoments = dm
    agg.resonance_coupling = J.copy()
    table = {}
    if cx.sym:
        # uninterpreted overlaps: FC(shift)[n, m] a fresh real per (shift, n, m)
        # contract of the stub (true of the real displacement operator exp(d(a^+ - a)/sqrt2) in a real
        # basis): FC(0) = identity, FC(-d) = FC(d)^T
        cx.note("shift_operator stub: FC(d) an uninterpreted real matrix with FC(0)=1 and FC(-d)=FC(d)^T")

        def shift_operator(shft):
            key = round(float(shft), 12)
            if key not in table:
                if key == 0.0:
                    table[key] = cx.const_array(numpy.eye(20))
                elif -key in table:
                    table[key] = table[-key].T.copy()
                else:
                    table[key] = cx.real_array("FC%d" % len(table), (20, 20))
            return table[key]
        agg.ops.shift_operator = shift_operator
    return agg, mols, g, e, d, J, table


def fc_of(agg, table, cx, shft):
    if cx.sym:
        return agg.ops.shift_operator(shft)     # the stub: creates the matrix if the code never asked for it
    key = round(float(shft), 12)     # replay: the real 100-level displacement operator, computed once per shift
    if key not in table:
        table[key] = agg.ops.shift_operator(shft)[:20, :20]
    return table[key]


@harness("C10", "vibronic_build",
         quick=[dict(nmol=1, nmodes=1, nmax=[2, 2]), dict(nmol=2, nmodes=1, nmax=[2, 2]),
                dict(nmol=2, nmodes=[0, 1], nmax=[3, 2]), dict(nmol=2, nmodes=[2, 1], nmax=[2, 2]),
                dict(nmol=3, nmodes=[1, 0, 1], nmax=[2, 2], mult=2), dict(nmol=2, nmodes=[1, 1], nmax=[2, 2], mult=2, full=True)],
         thorough=[dict(nmol=1, nmodes=1, nmax=[3, 2]), dict(nmol=1, nmodes=2, nmax=[2, 2]),
                   dict(nmol=2, nmodes=1, nmax=[2, 2]), dict(nmol=2, nmodes=1, nmax=[3, 2]),
                   dict(nmol=2, nmodes=2, nmax=[2, 2]), dict(nmol=2, nmodes=[0, 1], nmax=[3, 2]),
                   dict(nmol=2, nmodes=[2, 1], nmax=[2, 2]), dict(nmol=3, nmodes=[1, 0, 1], nmax=[2, 2], mult=2),
                   dict(nmol=3, nmodes=[1, 1, 1], nmax=[2, 2], mult=2), dict(nmol=2, nmodes=[1, 1], nmax=[2, 3], mult=2),
                   dict(nmol=3, nmodes=[0, 2, 1], nmax=[2, 2], mult=1),
                   dict(nmol=2, nmodes=[1, 1], nmax=[2, 2], mult=2, full=True),
                   dict(nmol=3, nmodes=[1, 0, 1], nmax=[2, 2], mult=2, full=True)],
         functions=[F_AB + ":AggregateBase.build", F_AB + ":AggregateBase.fc_factor", F_AB + ":AggregateBase.coupling",
                    F_AB + ":AggregateBase.transition_dipole", F_AS + ":ElectronicState.vsignatures",
                    F_AS + ":VibronicState", F_AB + ":AggregateBase.allstates"],
         bound="1-3 molecules with 0-2 modes each (different numbers of modes per molecule included), 2-3 levels per "
               "mode and electronic state (full vibrational state space), single-exciton band and (3 molecules) the "
               "two-exciton band, also with the full Frenkel coupling between the ground and the two-exciton band "
               "(fem_full=True); electronic energies, couplings, dipoles symbolic; Franck-Condon overlaps "
               "an uninterpreted matrix per shift difference; shifts, frequencies and level counts of the reference "
               "are read from the molecules' modes, not from the aggregate's states",
         out="the values of the overlaps (Poisson law, orthogonality: exp/eig of a 100-level matrix); truncated "
             "state-generation approximations; molecules with more than two electronic levels")
def vibronic_build(cx, nmol, nmodes, nmax, mult=1, full=False):
    agg, mols, g, e, d, J, table = vib_aggregate(cx, nmol, nmodes, nmax)
    if not isinstance(nmodes, (list, tuple)):
        nmodes = [nmodes] * nmol
    agg.build(mult=mult, fem_full=full)
    states = [s for (a, s) in agg.all_states]
    n = len(states)
    cx.prove("dim", agg.Ntot == n and agg.HamOp.dim == n)
    # --- counting: per electronic state the product of the declared level counts, each exactly once
    sigs = [(tuple(s.elstate.elsignature), tuple(s.vsig)) for s in states]
    cx.prove("signatures_unique", len(set(sigs)) == n)
    for els in sorted({s[0] for s in sigs}):
        got = sorted(v for (el, v) in sigs if el == els)
        ranges = []
        for mi in range(nmol):
            for k in range(nmodes[mi]):
                ranges.append(range(nmax[els[mi]]))
        want = sorted(itertools.product(*ranges))
        cx.prove("vibronic_states_of%s" % (els,), got == want)
    want_els = [tuple([0] * nmol)] + [tuple(1 if j == i else 0 for j in range(nmol)) for i in range(nmol)]
    if mult >= 2:
        want_els += [tuple(1 if j in (i, k) else 0 for j in range(nmol)) for i in range(nmol)
                     for k in range(i + 1, nmol)]
    cx.prove("electronic_states", sorted({s[0] for s in sigs}) == sorted(want_els))
    # --- matrix elements: mode (mi, k) in electronic level l of molecule mi, read from the molecule itself
    with cx.concrete():
        sub = {(mi, k, l): mols[mi].get_Mode(k).get_SubMode(l) for mi in range(nmol) for k in range(nmodes[mi])
               for l in (0, 1)}
    slots = [(mi, k) for mi in range(nmol) for k in range(nmodes[mi])]

    def fcprod(sa, sb):
        """product over all modes of FC(shift_a - shift_b)[n, m]"""
        res = 1
        ea_, eb_ = sa.elstate.elsignature, sb.elstate.elsignature
        if len(sa.vsig) != len(slots) or len(sb.vsig) != len(slots):
            return None
        for kk, (mi, k) in enumerate(slots):
            shft = sub[(mi, k, ea_[mi])].shift - sub[(mi, k, eb_[mi])].shift
            res = res * fc_of(agg, table, cx, shft)[sa.vsig[kk], sb.vsig[kk]]
        return res
    H, D, FC = agg.HamOp._data, agg.DD, agg.FCf
    for a, sa in enumerate(states):
        ea = sa.elstate.elsignature
        # diagonal: electronic energies + vibrational quanta
        en = 0
        for mi in range(nmol):
            en = en + (e[mi] if ea[mi] == 1 else g[mi])
        cx.prove("one_quantum_number_per_mode[%d]" % a, len(sa.vsig) == len(slots))
        if len(sa.vsig) != len(slots):
            continue
        for pos, (mi, k) in enumerate(slots):
            en = en + sa.vsig[pos] * sub[(mi, k, ea[mi])].omega
        cx.prove_eq("H_diag[%d]" % a, H[a, a], en, tol=1e-9)
        for b, sb in enumerate(states):
            eb = sb.elstate.elsignature
            f = fcprod(sa, sb)
            if f is None:
                continue
            cx.prove_eq("FC[%d,%d]" % (a, b), FC[a, b], f, tol=1e-9)
            diff = [p for p in range(nmol) if ea[p] != eb[p]]
            if a != b:
                if sum(ea) == sum(eb) and sum(ea) >= 1 and len(diff) == 2:
                    cx.prove_eq("H[%d,%d]" % (a, b), H[a, b], J[diff[0], diff[1]] * f, tol=1e-9)
                elif full and abs(sum(ea) - sum(eb)) == 2 and len(diff) == 2:
                    # full Frenkel-exciton coupling: ground band <-> two-exciton band, both molecules change
                    cx.prove_eq("H[%d,%d]" % (a, b), H[a, b], J[diff[0], diff[1]] * f, tol=1e-9)
                else:
                    cx.prove_eq("H[%d,%d]" % (a, b), H[a, b], 0, tol=1e-12)
            if abs(sum(ea) - sum(eb)) == 1 and len(diff) == 1:
                cx.prove_eq("D[%d,%d]" % (a, b), D[a, b, :], d[diff[0]] * f, tol=1e-9)
            else:
                cx.prove_eq("D[%d,%d]" % (a, b), D[a, b, :], numpy.zeros(3, dtype=int), tol=1e-12)


@harness("C10", "huang_rhys_roundtrip",
         quick=[dict()], thorough=[dict()],
         functions=[F_MO + ":Mode.set_HR", F_MO + ":Mode.get_HR", F_MO + ":Mode.set_shift", F_MO + ":Mode.get_shift"],
         bound="symbolic Huang-Rhys factor S >= 0: get_HR(set_HR(S)) = S and shift^2 = 2 S (sqrt stub r>=0, r*r=x)",
         out="")
def huang_rhys_roundtrip(cx):
    import quantarhei as qr
    with cx.concrete():
        m = qr.Molecule(elenergies=[0.0, 1.0])
        mod = qr.Mode(0.01)
        m.add_Mode(mod)
    S = cx.real("S", 0.0, 2.0)
    cx.assume(S >= 0, "Huang-Rhys factor >= 0")
    mod.set_HR(1, S)
    cx.check_div_obligations("domain")
    cx.prove_eq("roundtrip", mod.get_HR(1), S, tol=1e-9)
    sh = mod.get_shift(1)
    cx.prove_eq("shift_squared", sh * sh, 2.0 * S, tol=1e-9)
    cx.prove("shift_nonneg", sh >= 0)
    cx.prove_eq("ground_state_unshifted", mod.get_HR(0), 0, tol=1e-12)
