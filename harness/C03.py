"""C03 Aggregate Hamiltonian and dipole operator are the Frenkel-exciton ones."""
import itertools
import math
import numpy
import types
from vf.framework import harness

F_AB = "quantarhei/builders/aggregate_base.py"
F_AS = "quantarhei/builders/aggregate_states.py"
F_IN = "quantarhei/builders/interactions.py"
FUNCS = [F_AB + ":AggregateBase.build", F_AB + ":AggregateBase.coupling", F_AB + ":AggregateBase.transition_dipole",
         F_AB + ":AggregateBase._get_exindx", F_AB + ":AggregateBase.elsignatures", F_AB + ":AggregateBase.allstates",
         F_AS + ":ElectronicState.energy", F_AB + ":AggregateBase.get_Hamiltonian",
         F_AB + ":AggregateBase.get_TransitionDipoleMoment"]


def inputs(cx, nmol):
    g = [cx.real("g%d" % i, 0.0, 0.1) for i in range(nmol)]       # ground-state energies
    e = [cx.real("e%d" % i, 1.0, 2.0) for i in range(nmol)]       # excited-state energies
    d = [cx.real_array("d%d" % i, 3) for i in range(nmol)]
    J = cx.real_symmetric("J", nmol, zero_diag=True)
    return g, e, d, J


def make_aggregate(cx, nmol, mult, g, e, d, J, order=None, build_units=None):
    """real Molecule/Aggregate objects; energies, dipoles, couplings symbolic; real build()"""
    import quantarhei as qr
    order = list(range(nmol)) if order is None else list(order)
    with cx.concrete():
        mols = [qr.Molecule(name="M%d" % i, elenergies=[0.0, 1.0]) for i in range(nmol)]
    for i, m in enumerate(mols):
        en = numpy.empty(2, dtype=object if cx.sym else float)
        en[0], en[1] = g[i], e[i]
        m.elenergies = en
        dm = numpy.zeros((2, 2, 3), dtype=float)
        if cx.sym:
            from symnum import core
            dm = core.zeros((2, 2, 3))
        dm[0, 1, :] = d[i]
        dm[1, 0, :] = d[i]
        m.dmoments = dm
    with cx.concrete():
        agg = qr.Aggregate(name="A", molecules=[mols[i] for i in order])
        agg.init_coupling_matrix()
    Jp = numpy.empty((nmol, nmol), dtype=object if cx.sym else float)
    for a in range(nmol):
        for b in range(nmol):
            Jp[a, b] = J[order[a], order[b]]
    agg.resonance_coupling = Jp
    if build_units:
        with qr.energy_units(build_units):
            agg.build(mult=mult)
    else:
        agg.build(mult=mult)
    return agg


def frenkel_reference(cx, agg, nmol, g, e, d, J, order):
    """H and D from the definition, indexed by the excitation signatures the aggregate reports"""
    sigs = [tuple(s) for s in agg.elsigs]
    n = len(sigs)
    H = numpy.zeros((n, n), dtype=object if cx.sym else float)
    D = numpy.zeros((n, n, 3), dtype=object if cx.sym else float)
    if cx.sym:
        from symnum import core
        H[...] = core.lift(0)
        D[...] = core.lift(0)
    for a, sa in enumerate(sigs):
        acc = 0
        for pos, occ in enumerate(sa):
            acc = acc + (e[order[pos]] if occ == 1 else g[order[pos]])
        H[a, a] = acc
        for b, sb in enumerate(sigs):
            if a == b:
                continue
            diff = [p for p in range(nmol) if sa[p] != sb[p]]
            if sum(sa) == sum(sb) and len(diff) == 2:
                H[a, b] = J[order[diff[0]], order[diff[1]]]
            if abs(sum(sa) - sum(sb)) == 1 and len(diff) == 1:
                D[a, b, :] = d[order[diff[0]]]
    return sigs, H, D


def check_structure(cx, label, agg, nmol, mult, sigs):
    bands = [sum(s) for s in sigs]
    cx.prove(label + "/band_order", all(b1 <= b2 for b1, b2 in zip(bands[:-1], bands[1:])))
    cx.prove(label + "/sig_unique", len(set(sigs)) == len(sigs))
    cx.prove(label + "/sig_binary", all(set(s) <= {0, 1} and len(s) == nmol for s in sigs))
    cx.prove(label + "/band_counts", all(bands.count(b) == math.comb(nmol, b) for b in range(mult + 1))
             and max(bands) == min(mult, nmol))
    cx.prove(label + "/Nb", [int(x) for x in agg.Nb] == [math.comb(nmol, b) for b in range(mult + 1)])
    cx.prove(label + "/which_band", [int(agg.which_band[a]) for a in range(len(sigs))] == bands)
    cx.prove(label + "/dim", agg.HamOp.dim == len(sigs) and agg.Ntot == len(sigs))


@harness("C03", "frenkel_matrix",
         quick=[dict(nmol=2, mult=1), dict(nmol=2, mult=2), dict(nmol=3, mult=2), dict(nmol=4, mult=2)],
         thorough=[dict(nmol=n, mult=m) for n in (1, 2, 3, 4, 5) for m in (1, 2)
                   if (n, m) != (1, 2)],   # a monomer has no two-exciton band (set_rwa averages an empty block: 0/0, unobservable),
         functions=FUNCS,
         bound="<=3 two-level molecules (thorough 5), multiplicity 1 and 2; ground and excited energies, couplings "
               "and dipole vectors symbolic",
         out="vibrational sub-structure (C10); multiplicity > 2; multi-level molecules")
def frenkel_matrix(cx, nmol, mult):
    g, e, d, J = inputs(cx, nmol)
    order = list(range(nmol))
    agg = make_aggregate(cx, nmol, mult, g, e, d, J)
    sigs, Href, Dref = frenkel_reference(cx, agg, nmol, g, e, d, J, order)
    check_structure(cx, "st", agg, nmol, mult, sigs)
    H = agg.get_Hamiltonian()
    cx.prove_eq("H", H._data, Href)
    cx.prove_eq("HH", agg.HH, Href)
    cx.prove_eq("H_symmetric", H._data, H._data.T)
    cx.prove_eq("D", agg.get_TransitionDipoleMoment()._data, Dref)
    cx.prove_eq("DD", agg.DD, Dref)
    # the electronic-state entry point (for a purely electronic aggregate documented to be identical)
    Hel = agg.get_electronic_Hamiltonian()
    cx.prove_eq("electronic_Hamiltonian", Hel._data, Href)


@harness("C03", "relabelling",
         quick=[dict(nmol=2, mult=2, perm=[1, 0]), dict(nmol=3, mult=2, perm=[2, 0, 1]),
                dict(nmol=3, mult=1, perm=[1, 0, 2])],
         thorough=[dict(nmol=n, mult=m, perm=list(p)) for n in (2, 3) for m in (1, 2)
                   for p in itertools.permutations(range(n)) if list(p) != list(range(n))] +
                  [dict(nmol=4, mult=2, perm=p) for p in ([1, 0, 3, 2], [3, 2, 1, 0], [1, 2, 3, 0])],
         functions=FUNCS,
         bound="all permutations of <=3 molecules (thorough: plus three permutations of 4), mult 1 and 2: the "
               "permuted aggregate's H and D equal the original ones conjugated by the induced state permutation "
               "(hence equal spectrum and dipole strengths)",
         out="")
def relabelling(cx, nmol, mult, perm):
    g, e, d, J = inputs(cx, nmol)
    a0 = make_aggregate(cx, nmol, mult, g, e, d, J)
    a1 = make_aggregate(cx, nmol, mult, g, e, d, J, order=perm)
    s0 = [tuple(s) for s in a0.elsigs]
    s1 = [tuple(s) for s in a1.elsigs]
    cx.prove("same_dim", len(s0) == len(s1))
    # molecule at position p of the permuted aggregate is original molecule perm[p]
    P = []
    for sa in s0:
        sp = tuple(sa[perm[p]] for p in range(nmol))
        P.append(s1.index(sp) if sp in s1 else -1)
    cx.prove("state_map", sorted(P) == list(range(len(s0))))
    if sorted(P) != list(range(len(s0))):
        return
    idx = numpy.array(P)
    cx.prove_eq("H_conjugated", a1.HamOp._data[numpy.ix_(idx, idx)], a0.HamOp._data)
    cx.prove_eq("D_conjugated", a1.DD[numpy.ix_(idx, idx)], a0.DD)


@harness("C03", "build_units",
         quick=[dict(nmol=2, mult=2, units="1/cm"), dict(nmol=2, mult=1, units="eV")],
         thorough=[dict(nmol=2, mult=2, units=u) for u in ("1/cm", "eV", "THz", "meV", "nm", "J", "SI", "Ha", "a.u.",
                                                            "1/fs", "int")],
         functions=FUNCS + ["quantarhei/core/managers.py:Manager.convert_energy_2_internal_u",
                            "quantarhei/core/managers.py:Manager.convert_energy_2_current_u"],
         bound="dimer, mult<=2; the system built inside each energy-units context vs built with internal units",
         out="")
def build_units(cx, nmol, mult, units):
    g, e, d, J = inputs(cx, nmol)
    a0 = make_aggregate(cx, nmol, mult, g, e, d, J)
    a1 = make_aggregate(cx, nmol, mult, g, e, d, J, build_units=units)
    cx.check_div_obligations("finite")
    cx.prove_eq("H_internal_same", a1.HamOp._data, a0.HamOp._data)
    cx.prove_eq("D_same", a1.DD, a0.DD)


@harness("C03", "point_dipole",
         quick=[dict(eps=True)], thorough=[dict(eps=True), dict(eps=False)],
         functions=[F_IN + ":dipole_dipole_interaction", F_AB + ":AggregateBase.dipole_dipole_coupling",
                    F_AB + ":AggregateBase.set_coupling_by_dipole_dipole"],
         bound="arbitrary positions r1 != r2, dipoles d1, d2 and relative permittivity > 0 (all symbolic reals); "
               "sqrt stub r>=0, r*r=x",
         out="the proximity cut-off delta of dipole_dipole_coupling")
def point_dipole(cx, eps):
    from quantarhei.builders.interactions import dipole_dipole_interaction
    from quantarhei.core.units import eps0_int
    import scipy.constants as const
    r1, r2 = cx.real_array("r1", 3), cx.real_array("r2", 3)
    d1, d2 = cx.real_array("d1", 3), cx.real_array("d2", 3)
    er = cx.real("epsr", 1.0, 3.0) if eps else 1.0
    R = r1 - r2
    R2 = numpy.dot(R, R)
    cx.assume(R2 > 0, "molecules at different positions")
    if eps:
        cx.assume(er > 0, "relative permittivity > 0")
    val = dipole_dipole_interaction(r1, r2, d1, d2, er)
    cx.check_div_obligations("finite")
    # reference: (d1.d2 - 3 (d1.n)(d2.n)) / (4 pi eps0 eps_r R^3), n = R/|R|; multiply out the radicals:
    #   val * 4 pi eps0 eps_r * |R|^5 = d1.d2 |R|^2 - 3 (d1.R)(d2.R)
    Rn = numpy.sqrt(R2)
    prf = 1.0 / (4.0 * const.pi * eps0_int)    # the same double the code computes
    lhs = val * er * Rn ** 5
    rhs = prf * (numpy.dot(d1, d2) * R2 - 3.0 * numpy.dot(d1, R) * numpy.dot(d2, R))
    cx.prove_eq("formula", lhs, rhs, tol=1e-6)
    # symmetric in the two molecules
    cx.prove_eq("symmetric", dipole_dipole_interaction(r2, r1, d2, d1, er), val, tol=1e-9)
    # prefactor in physical units: 1 Debye^2 / (4 pi eps0 Angstrom^3) = 1e-19 J
    from quantarhei.core.units import conversion_facs_energy
    one = 1.0 / (4.0 * const.pi * eps0_int)            # internal energy units per D^2/A^3
    joule = 1.0e-19 * conversion_facs_energy["J"]
    cx.prove("prefactor_1e-19J", abs(one / joule - 1.0) < 1e-3)


@harness("C03", "coupling_from_geometry",
         quick=[dict(units=None), dict(units="1/cm")],
         thorough=[dict(units=u) for u in (None, "1/cm", "eV", "THz", "meV", "J")],
         functions=[F_AB + ":AggregateBase.set_coupling_by_dipole_dipole",
                    F_AB + ":AggregateBase.dipole_dipole_coupling", F_IN + ":dipole_dipole_interaction",
                    F_AB + ":AggregateBase.build"],
         bound="dimer with symbolic positions (distance > the proximity cut-off), dipoles, permittivity; couplings "
               "generated inside each energy-units context; then the built Hamiltonian's coupling element",
         out="molecules closer than the cut-off delta (the code sets the coupling to zero there)")
def coupling_from_geometry(cx, units):
    import contextlib
    import quantarhei as qr
    from quantarhei.builders.interactions import dipole_dipole_interaction
    g, e, d, J = inputs(cx, 2)
    r = [cx.real_array("r%d" % i, 3) for i in range(2)]
    er = cx.real("epsr", 1.0, 3.0)
    cx.assume(er > 0, "relative permittivity > 0")
    R = r[0] - r[1]
    cx.assume(numpy.dot(R, R) > 1.0, "distance above the proximity cut-off (|R| > 1 Angstrom)")
    with cx.concrete():
        mols = [qr.Molecule(name="M%d" % i, elenergies=[0.0, 1.0]) for i in range(2)]
    for i, m in enumerate(mols):
        en = numpy.empty(2, dtype=object if cx.sym else float)
        en[0], en[1] = g[i], e[i]
        m.elenergies = en
        dm = numpy.zeros((2, 2, 3)) if not cx.sym else __import__("symnum").core.zeros((2, 2, 3))
        dm[0, 1, :] = d[i]
        dm[1, 0, :] = d[i]
        m.dmoments = dm
        m.position = r[i]
    with cx.concrete():
        agg = qr.Aggregate(name="A", molecules=mols)
    ctx = qr.energy_units(units) if units else contextlib.nullcontext()
    with ctx:
        agg.set_coupling_by_dipole_dipole(epsr=er)
    agg.build(mult=1)
    cx.check_div_obligations("finite")
    ref = dipole_dipole_interaction(r[0], r[1], d[0], d[1], er)
    cx.prove_eq("coupling_matrix", agg.resonance_coupling[0, 1], ref, tol=1e-9)
    cx.prove_eq("coupling_symmetric", agg.resonance_coupling[1, 0], ref, tol=1e-9)
    cx.prove_eq("H12", agg.HamOp._data[1, 2], ref, tol=1e-9)
    cx.prove_eq("H21", agg.HamOp._data[2, 1], ref, tol=1e-9)


@harness("C03", "operators_survive_diagonalize",
         quick=[dict(nmol=2, mult=1), dict(nmol=3, mult=2), dict(nmol=2, mult=1, symbolic="H"),
                dict(nmol=3, mult=1, symbolic="none")],
         thorough=[dict(nmol=n, mult=m) for n in (2, 3) for m in (1, 2)] + [dict(nmol=2, mult=m, symbolic="H") for m in (1, 2)] +
                  [dict(nmol=3, mult=m, symbolic="none") for m in (1, 2)],
         functions=FUNCS + ["quantarhei/builders/aggregate_base.py:AggregateBase.diagonalize",
                            "quantarhei/builders/aggregate_base.py:AggregateBase.get_TransitionDipoleMoment",
                            "quantarhei/builders/aggregate_base.py:AggregateBase.get_Hamiltonian"],
         bound="dimer / trimer (mult 1, 2) with concrete energies and couplings (the aggregate's internal "
               "diagonalisation is the real LAPACK one) and symbolic dipoles - or (symbolic='H') symbolic energies and "
               "coupling with concrete dipoles, the internal diagonalisation through the eigh stub - or (symbolic='none') "
               "an entirely concrete float system built by the real numpy (memory sharing created by dtype-preserving "
               "conversions only exists between real float arrays; this instance has no symbolic content): after Aggregate.diagonalize() the "
               "operators handed out by get_Hamiltonian() and get_TransitionDipoleMoment() are still the site-basis "
               "Frenkel ones (their storage is not shared with the arrays the aggregate rotates in place)",
         out="")
def operators_survive_diagonalize(cx, nmol, mult, symbolic="D"):
    g = [0.0] * nmol
    if symbolic == "H":
        e = [cx.real("e%d" % i, 1.0, 2.0) for i in range(nmol)]
        d = [numpy.array([1.0, 0.25 * i, -0.5 * i]) for i in range(nmol)]
        J = cx.real_symmetric("J", nmol, zero_diag=True)
        if cx.sym:
            from symnum import linalg
            linalg.use_eigh(eigen_equation=False)
    else:
        e = [1.0 + 0.13 * i for i in range(nmol)]
        d = [cx.real_array("d%d" % i, 3) for i in range(nmol)]
        J = numpy.zeros((nmol, nmol))
    for i in range(nmol):
        for j in range(i + 1, nmol):
            if symbolic != "H":
                J[i, j] = J[j, i] = 0.02 + 0.01 * (i + j)
    if symbolic == "none":
        with cx.concrete():
            d = [numpy.array([1.0, 0.25 * i, -0.5 * i]) for i in range(nmol)]
            agg = make_aggregate(types.SimpleNamespace(sym=False, concrete=cx.concrete), nmol, mult, g, e, d, J)
            H0 = numpy.array(agg.get_Hamiltonian()._data).copy()
            D0 = numpy.array(agg.get_TransitionDipoleMoment()._data).copy()
            agg.diagonalize()
    else:
        agg = make_aggregate(cx, nmol, mult, g, e, d, J)
        H0 = numpy.array(agg.get_Hamiltonian()._data).copy()
        D0 = numpy.array(agg.get_TransitionDipoleMoment()._data).copy()
        agg.diagonalize()
    cx.prove_eq("hamiltonian_operator_unchanged", agg.get_Hamiltonian()._data, H0, tol=1e-9)
    cx.prove_eq("dipole_operator_unchanged", agg.get_TransitionDipoleMoment()._data, D0, tol=1e-9)
    cx.prove("operators_in_site_basis", agg.get_Hamiltonian().get_current_basis() == 0 and
             agg.get_TransitionDipoleMoment().get_current_basis() == 0)
