"""C01 Relaxation generators preserve trace and Hermiticity."""
import numpy
from vf.framework import harness
from harness.common import (build_sbi, set_symmetric_hamiltonian, set_symmetric_K,
                            trace_and_herm, secular_shape, tensor_with_identities)

D = "quantarhei/qm/liouvillespace/"
F_RED = D + "redfieldtensor.py"
F_TDR = D + "tdredfieldtensor.py"
F_REL = D + "relaxationtensor.py"
F_SEC = D + "secular.py"
F_LIN = D + "lindbladform.py"
F_FOE = D + "foerstertensor.py"
F_TDF = D + "tdfoerstertensor.py"
F_RF = D + "redfieldfoerster.py"


@harness("C01", "redfield_loopit",
         quick=[dict(N=2, nb=1), dict(N=3, nb=2)],
         thorough=[dict(N=2, nb=1), dict(N=3, nb=2), dict(N=4, nb=3)],
         functions=[F_RED + ":_loopit"],
         bound="N<=3 states, <=2 baths (thorough N<=4, 3 baths); K real arbitrary, Lambda complex arbitrary",
         out="values of the half-Fourier integrals (Lambda is arbitrary)")
def redfield_loopit(cx, N, nb):
    from quantarhei.qm.liouvillespace.redfieldtensor import _loopit
    Km = cx.real_array("K", (nb, N, N))
    Lm = cx.cplx_array("L", (nb, N, N))
    Ld = numpy.conj(numpy.transpose(Lm, (0, 2, 1)))
    RR = numpy.zeros((N, N, N, N), dtype=complex)
    for m in range(nb):
        Kd = numpy.transpose(Km[m, :, :])
        _loopit(Km, Kd, Lm, Ld, N, RR, m)
    trace_and_herm(cx, "R", RR)


def _redfield(cx, N, nb, td, secular):
    import quantarhei as qr
    from quantarhei.qm import RedfieldRelaxationTensor, TDRedfieldRelaxationTensor
    ham, sbi, time = build_sbi(cx, N, nb, Nt=4)
    set_symmetric_hamiltonian(cx, ham)
    set_symmetric_K(cx, sbi, N)
    if cx.sym:
        from symnum import linalg
        linalg.use_eigh(eigen_equation=False)
        cx.note("eigh stub without the eigen-equation: S is ANY orthogonal matrix, w any ascending reals "
                "(over-approximation: the identities are shown for every basis rotation)")
    cls = TDRedfieldRelaxationTensor if td else RedfieldRelaxationTensor
    RT = cls(ham, sbi)
    data = RT._data
    trace_and_herm(cx, "R", data)
    if td:
        cx.prove_eq("R.t0/zero", data[0], numpy.zeros(data[0].shape, dtype=int))
    if secular:
        orig = data.copy()
        if secular == "legacy" or td:
            RT.secularize()
        else:
            RT.secularize(legacy=False)
        trace_and_herm(cx, "Rsec", RT._data)
        secular_shape(cx, "Rsec", RT._data, orig)


@harness("C01", "redfield_tensor",
         quick=[dict(N=2, nb=1, secular=None), dict(N=2, nb=2, secular="legacy"),
                dict(N=3, nb=2, secular="data")],
         thorough=[dict(N=n, nb=b, secular=s) for n in (2, 3) for b in (1, 2) for s in (None, "legacy", "data")]
                  + [dict(N=4, nb=2, secular="data")],
         functions=[F_RED + ":RedfieldRelaxationTensor._implementation",
                    F_RED + ":RedfieldRelaxationTensor._guts_Cmplx_Splines",
                    F_RED + ":RedfieldRelaxationTensor._convert_operators_2_tensor", F_RED + ":_loopit",
                    F_REL + ":RelaxationTensor.secularize", F_SEC + ":Secular._secularize_data"],
         bound="N<=3 levels, <=2 baths, 3 time points (thorough N<=4); H and K_m arbitrary real symmetric; "
               "correlation integrals arbitrary complex (spline stub); eigenbasis any orthogonal matrix",
         out="multi-exciton (mult>1) branch; cut-off time")
def redfield_tensor(cx, N, nb, secular):
    _redfield(cx, N, nb, False, secular)


@harness("C01", "tdredfield_tensor",
         quick=[dict(N=2, nb=1, secular=None), dict(N=2, nb=2, secular="td")],
         thorough=[dict(N=n, nb=b, secular=s) for n in (2, 3) for b in (1, 2) for s in (None, "td")],
         functions=[F_TDR + ":TDRedfieldRelaxationTensor._implementation",
                    F_TDR + ":TDRedfieldRelaxationTensor._convert_operators_2_tensor",
                    F_TDR + ":TDRedfieldRelaxationTensor.secularize"],
         bound="N<=2 levels (thorough 3), <=2 baths, 3 time indices; H, K_m arbitrary real symmetric",
         out="multi-exciton branch; cut-off time")
def tdredfield_tensor(cx, N, nb, secular):
    _redfield(cx, N, nb, True, secular)


@harness("C01", "lindblad_form",
         quick=[dict(N=2, nb=1), dict(N=3, nb=2)],
         thorough=[dict(N=2, nb=1), dict(N=3, nb=2), dict(N=3, nb=3), dict(N=4, nb=2)],
         functions=[F_LIN + ":LindbladForm._implementation",
                    F_RED + ":RedfieldRelaxationTensor._post_implementation",
                    F_RED + ":RedfieldRelaxationTensor._convert_operators_2_tensor",
                    F_RED + ":RedfieldRelaxationTensor.convert_2_tensor"],
         bound="N<=3 levels, <=2 Lindblad operators (thorough N<=4, 3 operators); operators arbitrary real "
               "matrices, rates arbitrary real",
         out="vibrational / electronic Lindblad wrappers (they only build projectors and call this form)")
def lindblad_form(cx, N, nb):
    from quantarhei.qm import LindbladForm
    ham, sbi, time = build_sbi(cx, N, nb)
    sbi.KK = cx.real_array("K", (nb, N, N))
    sbi.rates = [cx.real("g%d" % i) for i in range(nb)]
    LF = LindbladForm(ham, sbi, as_operators=False)
    trace_and_herm(cx, "R", LF._data)
    LF2 = LindbladForm(ham, sbi, as_operators=True)
    LF2.convert_2_tensor()
    trace_and_herm(cx, "Rconv", LF2._data)
    orig = LF2._data.copy()
    LF2.secularize()
    trace_and_herm(cx, "Rsec", LF2._data)
    secular_shape(cx, "Rsec", LF2._data, orig)


@harness("C01", "update_structure",
         quick=[dict(N=2, Nt=0), dict(N=3, Nt=0), dict(N=2, Nt=2)],
         thorough=[dict(N=n, Nt=t) for n in (2, 3, 4) for t in (0, 2)],
         functions=[F_REL + ":RelaxationTensor.updateStructure"],
         bound="N<=3 (thorough 4); arbitrary real transfer rates R[a,a,b,b]; time-dependent form with 2 time indices",
         out="")
def update_structure(cx, N, Nt):
    from quantarhei.qm.liouvillespace.relaxationtensor import RelaxationTensor
    ham, sbi, time = build_sbi(cx, N, 1)
    RT = RelaxationTensor()
    RT.dim = N
    shape = (N, N, N, N) if Nt == 0 else (Nt, N, N, N, N)
    data = numpy.zeros(shape, dtype=complex)
    rates = cx.real_array("k", (max(Nt, 1), N, N))
    for a in range(N):
        for b in range(N):
            if a != b:
                if Nt == 0:
                    data[a, a, b, b] = rates[0, a, b]
                else:
                    data[:, a, a, b, b] = rates[:, a, b]
    RT._data = data
    RT.updateStructure()
    trace_and_herm(cx, "R", RT._data)
    # depopulation = minus the sum of outgoing rates; dephasing = mean of the two depopulation rates
    for t in range(max(Nt, 1)):
        R = RT._data if Nt == 0 else RT._data[t]
        for b in range(N):
            out = 0
            for a in range(N):
                if a != b:
                    out = out + rates[t, a, b]
            cx.prove_eq("depop.t%d[%d]" % (t, b), R[b, b, b, b], -out)
        for a in range(N):
            for b in range(N):
                if a != b:
                    cx.prove_eq("deph.t%d[%d,%d]" % (t, a, b), R[a, b, a, b],
                                (R[a, a, a, a] + R[b, b, b, b]) / 2)


@harness("C01", "secularize_generic",
         quick=[dict(N=2, how="legacy"), dict(N=3, how="data"), dict(N=2, how="legacy", Nt=3)],
         thorough=[dict(N=n, how=h) for n in (2, 3, 4) for h in ("legacy", "data")] +
                  [dict(N=2, how="legacy", Nt=3), dict(N=3, how="legacy", Nt=2)],
         functions=[F_REL + ":RelaxationTensor.secularize", F_SEC + ":Secular.secularize",
                    F_SEC + ":Secular._secularize_data"],
         bound="N<=3 (thorough 4); arbitrary tensor satisfying the two identities; with Nt: a time-dependent (5-index) "
               "tensor with the identities at each of Nt time indices, secularized by the base-class routine (the one "
               "the time-dependent Foerster and Redfield-Foerster tensors inherit)",
         out="")
def secularize_generic(cx, N, how, Nt=None):
    from quantarhei.qm.liouvillespace.relaxationtensor import RelaxationTensor
    RT = RelaxationTensor()
    RT.dim = N
    if Nt is None:
        R = tensor_with_identities(cx, N)
    else:
        R = numpy.array([tensor_with_identities(cx, N, "R%d" % t) for t in range(Nt)], dtype=object if cx.sym else complex)
    RT._data = R.copy()
    trace_and_herm(cx, "pre", RT._data)
    if how == "legacy":
        RT.secularize()
    else:
        RT.secularize(legacy=False)
    trace_and_herm(cx, "Rsec", RT._data)
    secular_shape(cx, "Rsec", RT._data, R)


@harness("C01", "transform_generic",
         quick=[dict(N=2, td=False), dict(N=2, td=True), dict(N=3, td=False, plane=[0, 1]),
                dict(N=3, td=False, plane=[1, 2]), dict(N=3, td=False)],
         thorough=[dict(N=2, td=False), dict(N=2, td=True), dict(N=3, td=False), dict(N=3, td=True)] +
                  [dict(N=3, td=t, plane=p) for t in (False, True) for p in ([0, 1], [0, 2], [1, 2])] +
                  [dict(N=4, td=False, plane=p) for p in ([0, 1], [1, 3], [2, 3])],
         functions=[F_REL + ":RelaxationTensor.transform", F_TDR + ":TDRedfieldRelaxationTensor.transform"],
         bound="arbitrary tensor with the identities; N=2: S any element of O(2); N=3: S any element of O(3) (product of "
               "three Givens rotations times column signs; decided by the normal-form prover) and the plane "
               "rotations separately; N=4 (thorough): plane rotations times signs (generators of O(4)); "
               "inverse obtained through numpy.linalg.inv (stub: transpose of the tagged orthogonal matrix)",
         out="non-orthogonal transformation matrices; composite rotations for N>=4 (they are successive "
             "applications of the generators)")
def transform_generic(cx, N, td, plane=None):
    from quantarhei.qm.liouvillespace.relaxationtensor import RelaxationTensor
    from quantarhei.qm import TDRedfieldRelaxationTensor
    R = tensor_with_identities(cx, N)
    if cx.sym:
        from symnum import linalg, npatch
        S = linalg.givens_orthogonal(N, "S", planes=[tuple(plane)] if plane else None)
        npatch.tag_inverse(S, S.T.copy())
    else:
        # rebuild S from the model's rotation parameters (same construction, floats)
        S = numpy.eye(N)
        k = 0
        for i in range(N):
            for j in range(i + 1, N):
                if plane and (i, j) != tuple(plane):
                    continue
                c, s_ = cx.real("S.c%d" % k), cx.real("S.s%d" % k)
                nrm = (c * c + s_ * s_) ** 0.5
                c, s_ = c / nrm, s_ / nrm
                G = numpy.eye(N)
                G[i, i] = G[j, j] = c
                G[i, j], G[j, i] = -s_, s_
                S = S @ G
                k += 1
        for i in range(N):
            S[:, i] *= (1.0 if cx.real("S.sg%d" % i) >= 0 else -1.0)
    if td:
        ham, sbi, time = build_sbi(cx, N, 1)
        RT = TDRedfieldRelaxationTensor(ham, sbi, initialize=False)
        RT.Nt = 2
        R2 = tensor_with_identities(cx, N, "Q")
        RT._data = numpy.array([R, R2])
        RT._data_initialized = True
    else:
        RT = RelaxationTensor()
        RT.dim = N
        RT._data = R.copy()
    RT.transform(S)
    trace_and_herm(cx, "Rtr", RT._data)


def _patch_foerster_inputs(cx, sbi, N, Nt):
    """symbolic mode: Foerster rates and the bath integrals h_n(t) become arbitrary
    real / complex numbers (they come out of numerical quadrature of arbitrary bath
    functions).  Replay mode: the real objects are used unchanged."""
    if not cx.sym:
        return None
    import quantarhei.qm.liouvillespace.foerstertensor as ft
    rates = cx.real_array("kF", (N, N))

    class FRM:
        def __init__(self, *a, **kw):
            self.data = rates
    old = ft.FoersterRateMatrix
    ft.FoersterRateMatrix = FRM
    hs = cx.cplx_array("h", (N, Nt))
    sbi.CC.create_one_integral = lambda: None
    sbi.CC.get_hoft = lambda i, j: hs[i + 1]
    return (ft, old)


def _unpatch(p):
    if p:
        p[0].FoersterRateMatrix = p[1]


@harness("C01", "foerster_tensor",
         quick=[dict(N=2, deph=False), dict(N=3, deph=True), dict(N=2, deph=False, cutoff=2.0)],
         thorough=[dict(N=n, deph=d) for n in (2, 3, 4) for d in (False, True)] + [dict(N=3, deph=True, cutoff=2.0)],
         functions=[F_FOE + ":FoersterRelaxationTensor.initialize",
                    F_FOE + ":FoersterRelaxationTensor.add_dephasing",
                    F_REL + ":RelaxationTensor.updateStructure"],
         bound="N<=3 levels (thorough 4); Foerster rates arbitrary reals, bath integrals h_n(t) arbitrary complex",
         out="values of the Foerster overlap integrals")
def foerster_tensor(cx, N, deph, cutoff=None):
    from quantarhei.qm import FoersterRelaxationTensor
    ham, sbi, time = build_sbi(cx, N, N - 1, Nt=4)
    set_symmetric_hamiltonian(cx, ham)
    p = _patch_foerster_inputs(cx, sbi, N, 4)
    try:
        kw = {} if cutoff is None else dict(cutoff_time=cutoff)
        FT = FoersterRelaxationTensor(ham, sbi, initialize=False, pure_dephasing=deph, **kw)
        try:
            FT.initialize()
        except (AttributeError, TypeError) as e:
            cx.fail("constructed", "%s: %s" % (type(e).__name__, str(e)[:100]))
            return
    finally:
        _unpatch(p)
    trace_and_herm(cx, "R", FT._data)
    orig = FT._data.copy()
    FT.secularize()
    trace_and_herm(cx, "Rsec", FT._data)
    secular_shape(cx, "Rsec", FT._data, orig)


@harness("C01", "tdfoerster_tensor",
         quick=[dict(N=2), dict(N=3)],
         thorough=[dict(N=2), dict(N=3)],
         functions=[F_TDF + ":TDFoersterRelaxationTensor.initialize",
                    F_TDF + ":TDFoersterRelaxationTensor.add_dephasing",
                    F_TDF + ":_td_reference_implementation", F_TDF + ":_td_fintegral",
                    F_REL + ":RelaxationTensor.updateStructure"],
         bound="N<=3 levels, 3 time indices; site energies/couplings arbitrary reals, running Foerster "
               "integrals arbitrary (spline stub), bath integrals h_n(t) arbitrary complex",
         out="values of the integrals")
def tdfoerster_tensor(cx, N):
    from quantarhei.qm.liouvillespace.tdfoerstertensor import TDFoersterRelaxationTensor
    ham, sbi, time = build_sbi(cx, N, N - 1, Nt=4)
    set_symmetric_hamiltonian(cx, ham)
    p = _patch_foerster_inputs(cx, sbi, N, 4)
    try:
        FT = TDFoersterRelaxationTensor(ham, sbi, initialize=False)
        FT.initialize()
    finally:
        _unpatch(p)
    trace_and_herm(cx, "R", FT._data)


@harness("C01", "redfield_foerster",
         quick=[dict(N=2, remainder=True), dict(N=2, remainder=False), dict(N=2, remainder=True, td=True)],
         thorough=[dict(N=2, remainder=True), dict(N=2, remainder=False), dict(N=3, remainder=True),
                   dict(N=2, remainder=True, td=True), dict(N=2, remainder=False, td=True)],
         functions=[F_RF + ":RedfieldFoersterRelaxationTensor._reference_implementation",
                    D + "tdredfieldfoerster.py:TDRedfieldFoersterRelaxationTensor._reference_implementation",
                    D + "rates/foersterrates.py:_reference_implementation",
                    D + "rates/foersterrates.py:_fintegral",
                    F_RED + ":RedfieldRelaxationTensor._implementation"],
         bound="N=2 levels (thorough 3), N-1 baths, 4 time points; H and the remainder coupling JR arbitrary real "
               "symmetric, quadrature results arbitrary (spline stub); eigenbasis any orthogonal matrix",
         out="the coupling cut-off value itself (JR is arbitrary, including zero)")
def redfield_foerster(cx, N, remainder, td=False):
    from quantarhei.qm.liouvillespace.redfieldfoerster import RedfieldFoersterRelaxationTensor
    from quantarhei.qm.liouvillespace.tdredfieldfoerster import TDRedfieldFoersterRelaxationTensor
    ham, sbi, time = build_sbi(cx, N, N - 1, Nt=4)
    set_symmetric_hamiltonian(cx, ham)
    set_symmetric_K(cx, sbi, N)
    if remainder:
        ham.JR = cx.real_symmetric("JR", N, zero_diag=True)
        ham._has_remainder_coupling = True
    if cx.sym:
        from symnum import linalg
        linalg.use_eigh(eigen_equation=False)
    try:
        RT = (TDRedfieldFoersterRelaxationTensor if td else RedfieldFoersterRelaxationTensor)(ham, sbi)
    except (AttributeError, TypeError) as e:
        cx.fail("constructed", "%s: %s" % (type(e).__name__, str(e)[:100]))
        return
    trace_and_herm(cx, "R", RT._data)


def _rep4(S, R):
    return numpy.einsum("ia,jb,ijkl,kc,ld->abcd", S, S, R, S, S)


@harness("C01", "secularize_in_context",
         quick=[dict(kind="generic"), dict(kind="td")], thorough=[dict(kind=k) for k in ("generic", "data", "td")],
         functions=[F_REL + ":RelaxationTensor.secularize", F_SEC + ":Secular._secularize_data",
                    F_TDR + ":TDRedfieldRelaxationTensor.secularize",
                    "quantarhei/core/managers.py:eigenbasis_of.__enter__",
                    "quantarhei/utils/types.py:basis_managed_array_property"],
         bound="N=2: a tensor built outside any context (arbitrary with the identities; time-dependent with 2 time "
               "indices) is secularized as the FIRST access inside eigenbasis_of(H) (H given by its "
               "eigen-decomposition): inside, kept elements equal those of the tensor's representation in that "
               "basis and all others are zero ('in every basis')",
         out="N>=3")
def secularize_in_context(cx, kind):
    import quantarhei as qr
    from quantarhei.qm.liouvillespace.relaxationtensor import RelaxationTensor
    from quantarhei.qm import TDRedfieldRelaxationTensor
    from harness.common import spectral_hamiltonian
    N = 2
    H, w, S = spectral_hamiltonian(cx, N)
    with cx.concrete():
        ham = qr.Hamiltonian(data=numpy.diag(numpy.arange(N, dtype=float)))
    ham._data = H.copy()
    R0 = tensor_with_identities(cx, N)
    if kind == "td":
        ham2, sbi, time = build_sbi(cx, N, 1)
        RT = TDRedfieldRelaxationTensor(ham2, sbi, initialize=False)
        R1 = tensor_with_identities(cx, N, "Q")
        RT._data = numpy.array([R0, R1])
        RT.Nt = 2
        RT._data_initialized = True
        RT.as_operators = False
        site = [R0, R1]
    else:
        RT = RelaxationTensor()
        RT.dim = N
        RT._data = R0.copy()
        RT._data_initialized = True
        site = [R0]
    with qr.eigenbasis_of(ham):
        Sx = qr.Manager().basis_transformations[-1]
        if kind == "data":
            RT.secularize(legacy=False)
        else:
            RT.secularize()
        inside = RT.data
        for t, Rs in enumerate(site):
            cur = inside[t] if kind == "td" else inside
            expect = _rep4(Sx, Rs)
            secular_shape(cx, "inside.t%d" % t, cur, expect)
            trace_and_herm(cx, "inside.t%d" % t, cur)


@harness("C01", "opensystem_dispatch",
         quick=[dict(theory="stR", td=False, secular=False), dict(theory="stR", td=False, secular=True),
                dict(theory="stF", td=False, secular=False)],
         thorough=[dict(theory="stR", td=t, secular=s) for t in (False, True) for s in (False, True)] +
                  [dict(theory="stF", td=False, secular=False), dict(theory="stF", td=True, secular=False)],
         functions=["quantarhei/builders/opensystem.py:OpenSystem.get_RelaxationTensor",
                    F_RED + ":RedfieldRelaxationTensor.__init__", F_TDR + ":TDRedfieldRelaxationTensor._implementation",
                    F_FOE + ":FoersterRelaxationTensor.initialize", F_REL + ":RelaxationTensor.secularize",
                    F_REL + ":RelaxationTensor.transform", "quantarhei/core/managers.py:eigenbasis_of.__exit__"],
         bound="dimer aggregate (ground + 2 sites) with its real baths (4 time points); Hamiltonian given by its "
               "eigen-decomposition (block rotation, ground state decoupled); the tensor is requested through "
               "Aggregate.get_RelaxationTensor (theory, time_dependent, secular) and read outside every context",
         out="modified Redfield, non-equilibrium Foerster, combined theories through the dispatcher (their tensor "
             "classes are checked directly where they exist above)")
def opensystem_dispatch(cx, theory, td, secular):
    from harness.common import build_aggregate, spectral_hamiltonian
    agg = build_aggregate(cx, 2, Nt=4)
    N = agg.HamOp.dim
    H, w, S = spectral_hamiltonian(cx, N, block=[[0], list(range(1, N))])
    agg.HamOp._data = H.copy()
    time = agg.sbi.TimeAxis
    if theory == "stF" and cx.sym:
        sbi = agg.get_SystemBathInteraction()
        p = _patch_foerster_inputs(cx, sbi, N, time.length)
    else:
        p = None
    try:
        RT, ham = agg.get_RelaxationTensor(time, relaxation_theory=theory, time_dependent=td,
                                           secular_relaxation=secular)
    finally:
        _unpatch(p)
    data = RT.data
    trace_and_herm(cx, "R", data)
    cx.prove("basis_restored", RT.get_current_basis() == 0 and agg.HamOp.get_current_basis() == 0
             and agg.HamOp.is_basis_protected is False)
    cx.prove_eq("H_untouched", agg.HamOp._data, H)


@harness("C01", "operator_form_after_transform",
         quick=[dict(td=False), dict(td=True)], thorough=[dict(td=False), dict(td=True), dict(td=True, nb=2)],
         functions=[F_RED + ":RedfieldRelaxationTensor.transform", F_TDR + ":TDRedfieldRelaxationTensor.transform",
                    F_RED + ":RedfieldRelaxationTensor.convert_2_tensor",
                    F_TDR + ":TDRedfieldRelaxationTensor.convert_2_tensor"],
         bound="N=2, 1-2 baths: a Redfield tensor born in operator form (time-independent and time-dependent), "
               "transformed by an arbitrary rotation while still in operator form and then assembled: the generator "
               "obeys both identities at every time index",
         out="N>=3")
def operator_form_after_transform(cx, td, nb=1):
    from quantarhei.qm import RedfieldRelaxationTensor, TDRedfieldRelaxationTensor
    N = 2
    ham, sbi, time = build_sbi(cx, N, nb, Nt=4)
    set_symmetric_hamiltonian(cx, ham)
    set_symmetric_K(cx, sbi, N)
    if cx.sym:
        from symnum import linalg, npatch
        linalg.use_eigh(eigen_equation=False)
        S = linalg.givens_orthogonal(N, "T")
        npatch.tag_inverse(S, S.T.copy())
    else:
        c, s_ = cx.real("T.c0", 0.3, 0.9), cx.real("T.s0", 0.3, 0.9)
        nrm = (c * c + s_ * s_) ** 0.5
        c, s_ = c / nrm, s_ / nrm
        S = numpy.array([[c, -s_], [s_, c]])
        for i in range(N):
            S[:, i] *= (1.0 if cx.real("T.sg%d" % i) >= 0 else -1.0)
    cls = TDRedfieldRelaxationTensor if td else RedfieldRelaxationTensor
    RT = cls(ham, sbi, as_operators=True)
    RT.transform(S)
    RT.convert_2_tensor()
    trace_and_herm(cx, "R", RT._data)
