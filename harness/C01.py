"""C01 Relaxation generators preserve trace and Hermiticity."""
import numpy
from vf.framework import harness

F_RED = "quantarhei/qm/liouvillespace/redfieldtensor.py"


def trace_and_herm(cx, label, RR):
    """sum_a R[a,a,c,d] = 0 ; conj R[a,b,c,d] = R[b,a,d,c]"""
    N = RR.shape[0]
    tr = numpy.einsum("aacd->cd", RR)
    cx.prove_eq(label + "/trace", tr, numpy.zeros((N, N), dtype=int))
    cx.prove_eq(label + "/herm", numpy.conj(RR), numpy.transpose(RR, (1, 0, 3, 2)))


@harness("C01", "redfield_loopit",
         quick=[dict(N=2, nb=1), dict(N=3, nb=2)],
         thorough=[dict(N=2, nb=1), dict(N=3, nb=2), dict(N=4, nb=3)],
         functions=[F_RED + ":_loopit"],
         bound="N<=3 states, <=2 baths (thorough N<=4, 3 baths); K real arbitrary, Lambda complex arbitrary",
         out="values of the half-Fourier integrals (Lambda is arbitrary)")
def redfield_loopit(cx, N, nb):
    from quantarhei.qm.liouvillespace.redfieldtensor import _loopit
    Km = cx.real_array("K", (nb, N, N))
    Lm = cx.cplx_array("L", (nb, N, N))
    Ld = numpy.conj(numpy.transpose(Lm, (0, 2, 1)))
    RR = numpy.zeros((N, N, N, N), dtype=complex)
    for m in range(nb):
        Kd = numpy.transpose(Km[m, :, :])
        _loopit(Km, Kd, Lm, Ld, N, RR, m)
    trace_and_herm(cx, "R", RR)
