"""C18 Saved objects and exported data load back to the same physical values."""
import copy
import os
import tempfile
import contextlib
import numpy
from vf.framework import harness
from harness.common import spectral_hamiltonian, tensor_with_identities

F_S = "quantarhei/core/saveable.py"
F_P = "quantarhei/core/parcel.py"


@contextlib.contextmanager
def pickle_as_deepcopy(cx):
    """symbolic mode: dill.dump/load of the parcel module replaced by a deep copy of the object graph
    kept in memory (the default pickling of these classes copies __dict__ recursively; symbolic numbers
    are immutable and shared).  Replay mode: the real dill."""
    if not cx.sym:
        yield
        return
    import quantarhei.core.parcel as parcel
    store = {}

    class P:
        @staticmethod
        def dump(obj, f):
            store[getattr(f, "name", id(f))] = copy.deepcopy(obj)

        @staticmethod
        def load(f):
            return copy.deepcopy(store[getattr(f, "name", id(f))])
    old = parcel.pickle
    parcel.pickle = P
    cx.note("dill.dump/dill.load stubbed by an in-memory deep copy of the object graph")
    try:
        yield
    finally:
        parcel.pickle = old


def make_object(cx, kind, N=2):
    import quantarhei as qr
    with cx.concrete():
        if kind == "Operator":
            o = qr.qm.Operator(dim=N, real=False)
        elif kind == "Hamiltonian":
            o = qr.Hamiltonian(data=numpy.diag(numpy.arange(N, dtype=float)))
        elif kind == "ReducedDensityMatrix":
            o = qr.ReducedDensityMatrix(dim=N)
        elif kind == "RelaxationTensor":
            from quantarhei.qm.liouvillespace.relaxationtensor import RelaxationTensor
            o = RelaxationTensor()
            o.dim = N
    if kind == "Hamiltonian":
        X = cx.real_symmetric("X", N)
    elif kind == "RelaxationTensor":
        X = tensor_with_identities(cx, N, "X")
        o._data_initialized = True
    else:
        X = cx.hermitian("X", N)
    o._data = X.copy()
    return o, X


@harness("C18", "basis_contexts",
         quick=[dict(kind=k, prog=p) for k in ("Operator", "Hamiltonian") for p in
                ("plain", "save_inside_untouched", "save_inside_after_read", "load_inside")],
         thorough=[dict(kind=k, prog=p) for k in ("Operator", "Hamiltonian", "ReducedDensityMatrix", "RelaxationTensor")
                   for p in ("plain", "save_inside_untouched", "save_inside_after_read", "load_inside",
                             "save_inside_load_inside_other")],
         functions=[F_S + ":Saveable.save", F_S + ":Saveable.load", F_S + ":Saveable.scopy", F_P + ":Parcel.save",
                    F_P + ":save_parcel", F_P + ":load_parcel", "quantarhei/utils/types.py:basis_managed_array_property",
                    "quantarhei/core/managers.py:Manager.transform_to_current_basis"],
         bound="N=2 objects (operator, Hamiltonian, density matrix, relaxation tensor) with symbolic data; programs "
               "[save, load] with the save and/or the load inside eigenbasis_of(H) (H given by its eigen-"
               "decomposition), before or after the object was read there: the loaded object's data read outside "
               "every context equal the original's",
         out="the pickle byte format itself (dill) - stubbed by a deep copy, validated by the concrete replay; HDF5")
def basis_contexts(cx, kind, prog):
    import quantarhei as qr
    N = 2
    H, w, S = spectral_hamiltonian(cx, N)
    with cx.concrete():
        ham = qr.Hamiltonian(data=numpy.diag(numpy.arange(N, dtype=float)))
    ham._data = H.copy()
    obj, X = make_object(cx, kind)
    d = tempfile.mkdtemp(prefix="verif-c18-")
    fn = os.path.join(d, "o.qrp")
    try:
        with pickle_as_deepcopy(cx):
            loaded = None
            if prog == "plain":
                obj.save(fn)
                loaded = qr.load_parcel(fn)
            elif prog in ("save_inside_untouched", "save_inside_after_read"):
                with qr.eigenbasis_of(ham):
                    if prog == "save_inside_after_read":
                        _ = obj.data
                    obj.save(fn)
                loaded = qr.load_parcel(fn)
            elif prog == "load_inside":
                obj.save(fn)
                with qr.eigenbasis_of(ham):
                    loaded = qr.load_parcel(fn)
                    _ = loaded.data
            else:
                with cx.concrete():
                    ham2 = qr.Hamiltonian(data=numpy.diag(numpy.arange(N, dtype=float)))
                G = cx.real_symmetric("G", N)
                ham2._data = G.copy()
                if cx.sym:
                    from symnum import linalg
                    linalg.use_eigh(eigen_equation=True, signs=False)
                with qr.eigenbasis_of(ham):
                    _ = obj.data
                    obj.save(fn)
                try:
                    with qr.eigenbasis_of(ham2):
                        loaded = qr.load_parcel(fn)
                        _ = loaded.data
                except Exception as e:
                    cx.fail("loaded_readable", "reading the loaded object's data inside another context raised "
                                               "%s: %s" % (type(e).__name__, e))
                    return
        try:
            got = loaded.data
        except Exception as e:
            cx.fail("loaded_readable", "reading the loaded object's data raised %s: %s" % (type(e).__name__, e))
            return
        cx.prove_eq("loaded_equals_original", got, X, tol=1e-7)
        cx.prove_eq("original_untouched", obj.data, X, tol=1e-7)
    finally:
        import shutil
        shutil.rmtree(d, ignore_errors=True)


@harness("C18", "units_contexts",
         quick=[dict(kind=k, u1=a, u2=b) for k in ("Hamiltonian", "FrequencyAxis") for (a, b) in
                (("1/cm", "eV"), ("eV", None), (None, "1/cm"))],
         thorough=[dict(kind=k, u1=a, u2=b) for k in ("Hamiltonian", "FrequencyAxis", "Molecule")
                   for a in (None, "1/cm", "eV", "nm") for b in (None, "1/cm", "THz")],
         functions=[F_S + ":Saveable.save", F_P + ":load_parcel", "quantarhei/utils/types.py:units_managed_property",
                    "quantarhei/utils/types.py:managed_array_property"],
         bound="Hamiltonian / FrequencyAxis (thorough also Molecule) with symbolic values saved inside energy-units "
               "context u1 and loaded inside u2: internal values and the values read under any common context agree",
         out="")
def units_contexts(cx, kind, u1, u2):
    import quantarhei as qr
    v = cx.real("v", 0.5, 2.0)
    w = cx.real("w", 0.5, 2.0)
    cx.assume(v != 0, "values != 0")
    cx.assume(w != 0)
    if kind == "Hamiltonian":
        with cx.concrete():
            o = qr.Hamiltonian(data=numpy.diag(numpy.arange(2, dtype=float)))
        X = numpy.empty((2, 2), dtype=object if cx.sym else float)
        X[0, 0], X[0, 1], X[1, 0], X[1, 1] = v, w, w, v + w
        o._data = X.copy()
        read = lambda z: z.data
    elif kind == "FrequencyAxis":
        o = qr.FrequencyAxis(v, 3, w)
        read = lambda z: numpy.array([z.start, z.step] + list(z.data), dtype=object if cx.sym else float)
    else:
        with cx.concrete():
            o = qr.Molecule(elenergies=[0.0, 1.0])
        en = numpy.empty(2, dtype=object if cx.sym else float)
        en[0], en[1] = v, v + w
        o.elenergies = en
        read = lambda z: numpy.array([z.get_energy(0), z.get_energy(1)], dtype=object if cx.sym else float)
    c1 = qr.energy_units(u1) if u1 else contextlib.nullcontext()
    c2 = qr.energy_units(u2) if u2 else contextlib.nullcontext()
    d = tempfile.mkdtemp(prefix="verif-c18-")
    fn = os.path.join(d, "o.qrp")
    try:
        with pickle_as_deepcopy(cx):
            with c1:
                o.save(fn)
            with c2:
                loaded = qr.load_parcel(fn)
        cx.prove_eq("internal_same", read(loaded), read(o), tol=1e-9)
        with qr.energy_units("1/cm"):
            a, b = read(loaded), read(o)
        cx.assume_denominators_nonzero("values != 0")
        cx.prove_eq("same_in_common_units", a, b, tol=1e-9)
    finally:
        import shutil
        shutil.rmtree(d, ignore_errors=True)


F_D = "quantarhei/core/datasaveable.py"


class FileStubs:
    """symbolic mode: the C-level array I/O (numpy.save/load/savetxt/loadtxt/savez_compressed,
    scipy.io.savemat/loadmat) replaced by an in-memory store with their documented shape contracts:
    npy/npz keep shape; text keeps 1-D/2-D arrays, squeezes single rows/columns and needs dtype=complex
    to read complex numbers; Matlab files hold at least two-dimensional arrays (1-D -> one row)."""

    def __init__(self):
        self.store = {}

    @staticmethod
    def _has_complex(a):
        from symnum import core
        for v in numpy.asarray(a, dtype=object).flat:
            v = core.lift(v)
            if not v.is_real:
                return True
        return False

    def save(self, file, arr, **kw):
        name = file if str(file).endswith(".npy") else str(file) + ".npy"
        self.store[name] = numpy.array(arr, dtype=object).copy()

    def savez_compressed(self, file, **kw):
        name = file if str(file).endswith(".npz") else str(file) + ".npz"
        self.store[name] = {k: numpy.array(v, dtype=object).copy() for k, v in kw.items()}

    def load(self, file, **kw):
        v = self.store[str(file)]
        return {k: a.copy() for k, a in v.items()} if isinstance(v, dict) else v.copy()

    def savetxt(self, file, arr, **kw):
        a = numpy.array(arr, dtype=object)
        if a.ndim not in (1, 2):
            raise ValueError("Expected 1D or 2D array, got %dD array instead" % a.ndim)
        self.store[str(file)] = a.copy()

    def loadtxt(self, file, dtype=float, **kw):
        a = self.store[str(file)]
        if self._has_complex(a) and numpy.dtype(dtype).kind != "c":
            raise ValueError("could not convert string to float")
        return numpy.squeeze(a.copy()) if a.ndim == 2 and 1 in a.shape else a.copy()

    def savemat(self, file, mdict, **kw):
        self.store[str(file)] = {k: numpy.atleast_2d(numpy.array(v, dtype=object)).copy() for k, v in mdict.items()}

    def loadmat(self, file, **kw):
        return {k: a.copy() for k, a in self.store[str(file)].items()}


@contextlib.contextmanager
def file_io(cx):
    """symbolic: FileStubs patched into numpy / scipy.io for the duration; replay: real files in a scratch dir"""
    d = tempfile.mkdtemp(prefix="c18_")
    try:
        if not cx.sym:
            yield d
            return
        import scipy.io as sio
        st = FileStubs()
        saved = []
        for mod, names in ((numpy, ("save", "load", "savetxt", "loadtxt", "savez_compressed")),
                           (sio, ("savemat", "loadmat"))):
            for n in names:
                saved.append((mod, n, getattr(mod, n)))
                setattr(mod, n, getattr(st, n))
        cx.note("array file I/O stub: in-memory store; npy/npz keep shape, text squeezes single rows/columns and "
                "needs dtype=complex for complex data, Matlab arrays are at least 2-D (1-D -> one row)")
        try:
            yield d
        finally:
            for mod, n, f in saved:
                setattr(mod, n, f)
    finally:
        import shutil
        shutil.rmtree(d, ignore_errors=True)


@harness("C18", "data_export",
         quick=[dict(ext=e, cplx=c, dim=d, axis=a) for e in (".dat", ".npy", ".npz", ".mat") for c in (False, True)
                for d in (1, 2) for a in (False, True)],
         thorough=[dict(ext=e, cplx=c, dim=d, axis=a, N=n) for e in (".dat", ".txt", ".npy", ".npz", ".mat")
                   for c in (False, True) for d in (1, 2) for a in (False, True) for n in (3, 5)],
         functions=[F_D + ":DataSaveable.save_data", F_D + ":DataSaveable.load_data",
                    F_D + ":DataSaveable._data_with_axis", F_D + ":DataSaveable._extract_data_with_axis",
                    F_D + ":DataSaveable._saveBinaryData", F_D + ":DataSaveable._saveBinaryData_compressed",
                    F_D + ":DataSaveable._exportDataToText", F_D + ":DataSaveable._importDataFromText",
                    F_D + ":DataSaveable._saveMatlab", F_D + ":DataSaveable._loadMatlab"],
         bound="every supported extension, real / complex symbolic data of shape (N,) and (N,3), N=3 (thorough 3, 5), "
               "with and without an accompanying time axis: save_data then load_data into a fresh object (and a "
               "fresh axis) gives data of the same shape with equal elements and the same axis values; the C-level "
               "file I/O is the in-memory stub with the formats' shape contracts (replay: the real files)",
         out="byte-level file contents; precision of the text format (%.18e is exact for doubles)")
def data_export(cx, ext, cplx, dim, axis, N=3):
    import quantarhei as qr
    from quantarhei.core.datasaveable import DataSaveable

    class Obj(DataSaveable):
        data = None
    shape = (N,) if dim == 1 else (N, 3)
    d = cx.cplx_array("d", shape) if cplx else cx.real_array("d", shape)
    o = Obj()
    o.data = d.copy()
    with cx.concrete():
        ax = qr.TimeAxis(0.0, N, 1.0) if axis else None
        ax2 = qr.TimeAxis(5.0, N, 2.0) if axis else None
        axdata = numpy.array(ax.data, dtype=float) if axis else None
    label = "roundtrip_%s" % ext.strip(".")
    with file_io(cx) as tmp:
        name = os.path.join(tmp, "f" + ext)
        o2 = Obj()
        try:
            with contextlib.redirect_stdout(open(os.devnull, "w")):
                o.save_data(name, with_axis=ax)
                o2.load_data(name, with_axis=ax2)
        except Exception as e:      # noqa: BLE001 - any failure of the export/import is a failed round trip
            cx.fail(label, "%s: %s" % (type(e).__name__, str(e)[:120]))
            return
    got = numpy.asarray(o2.data)
    cx.prove(label + "_shape", tuple(got.shape) == shape)
    if tuple(got.shape) != shape:
        return
    cx.prove_eq(label, got, d, tol=1e-12)
    cx.prove_eq("exported_object_unchanged", o.data, d)
    if axis:
        cx.prove_eq(label + "_axis", numpy.asarray(ax2.data), axdata, tol=1e-12)
        cx.prove_eq("exported_axis_unchanged", numpy.asarray(ax.data), axdata)


PROGRAMS_DIR = {
    "one_dir": [(0, 0), (1, 0)],
    "two_dirs": [(0, 0), (0, 1)],
    "two_dirs_two_objects": [(0, 0), (1, 1), (1, 0)],
    "back_and_forth": [(0, 0), (0, 1), (0, 0), (1, 1)],
    "three_dirs": [(0, 0), (1, 1), (0, 2), (1, 0)],
    # explicit tags mixed with automatic ones (automatic = last tag + 1, as documented by the code's behaviour)
    "explicit_tag": [(0, 0), (1, 0, 3), (0, 0), (1, 0)],
    "explicit_tags_two_dirs": [(0, 0, 5), (1, 1), (1, 0), (0, 1, 4), (0, 1)],
}


@harness("C18", "directory_saving",
         quick=[dict(prog=p) for p in ("one_dir", "two_dirs", "two_dirs_two_objects", "explicit_tag")],
         thorough=[dict(prog=p) for p in PROGRAMS_DIR],
         functions=[F_S + ":Saveable.savedir", F_S + ":Saveable.loaddir", F_S + ":Saveable.save", F_P + ":Parcel.save",
                    F_P + ":load_parcel"],
         bound="histories of up to 4 savedir() calls of two operators (symbolic data, changed between saves) into up "
               "to 3 fresh directories of the real file system, then loaddir() of every directory: it returns exactly "
               "the objects saved there, under the tags 1..k in saving order (explicit tags mixed in: automatic tag = last tag + 1), with "
               "the data they had when saved; "
               "pickling is the deep-copy stub (replay: the real dill)",
         out="unitedir; re-use of an explicit tag (overwrites by design)")
def directory_saving(cx, prog):
    import quantarhei as qr
    steps = PROGRAMS_DIR[prog]
    objs = []
    for i in range(2):
        with cx.concrete():
            o = qr.qm.Operator(dim=2, real=False)
        o._data = cx.hermitian("X%d" % i, 2).copy()
        objs.append(o)
    base = tempfile.mkdtemp(prefix="c18dir_")
    want = {}
    try:
        with pickle_as_deepcopy(cx):
            for n, step in enumerate(steps):
                oi, di = step[0], step[1]
                tag = step[2] if len(step) > 2 else None
                d = os.path.join(base, "dir%d" % di)
                # the object's content changes between saves, so that a stale copy is visible
                objs[oi]._data = objs[oi]._data + (n + 1)
                have = want.setdefault(di, [])
                if tag is None:
                    tag = (have[-1][0] + 1) if have else 1
                have.append((tag, objs[oi]._data.copy()))
                try:
                    objs[oi].savedir(d, tag=step[2]) if len(step) > 2 else objs[oi].savedir(d)
                except Exception as e:      # noqa: BLE001
                    cx.fail("savedir_step_%d" % n, "%s: %s" % (type(e).__name__, str(e)[:120]))
                    return
            for di, datas in sorted(want.items()):
                d = os.path.join(base, "dir%d" % di)
                try:
                    got = objs[0].loaddir(d)
                except Exception as e:      # noqa: BLE001
                    cx.fail("loaddir_%d" % di, "%s: %s" % (type(e).__name__, str(e)[:120]))
                    continue
                tags = [t for t, _ in datas]
                cx.prove("loaddir_%d_tags" % di, list(got.keys()) == tags)
                if list(got.keys()) != tags:
                    continue
                for t, ref in datas:
                    cx.prove_eq("loaddir_%d_object_%d" % (di, t), got[t]._data, ref, tol=1e-12)
    finally:
        import shutil
        shutil.rmtree(base, ignore_errors=True)


@harness("C18", "spectrum_export",
         quick=[dict(ext=".dat", units="1/cm"), dict(ext=".npy", units=None), dict(ext=".mat", units="eV")],
         thorough=[dict(ext=e, units=u) for e in (".dat", ".npy", ".npz", ".mat") for u in (None, "1/cm", "eV", "THz")],
         functions=["quantarhei/spectroscopy/absbase.py:AbsSpectrumBase.save_data",
                    "quantarhei/spectroscopy/absbase.py:AbsSpectrumBase.load_data",
                    F_D + ":DataSaveable._data_with_axis", F_D + ":DataSaveable._extract_data_with_axis",
                    "quantarhei/core/frequency.py:FrequencyAxis.data"],
         bound="an absorption spectrum on a 4-point frequency axis (symbolic start, step and data) exported with "
               "save_data and imported with load_data into a second spectrum, both inside the same energy-units "
               "context (or none): the frequency axis read in that context and the data are the same; I/O stubs as "
               "in data_export (replay: real files)",
         out="save in one context, load in another (the text file carries no units)")
def spectrum_export(cx, ext, units):
    import quantarhei as qr
    N = 4
    start = cx.real("wstart", 1.0, 2.0)
    step = cx.real("wstep", 0.01, 0.1)
    cx.assume(step > 0, "axis step > 0")
    d = cx.real_array("d", N)
    ctx = (lambda: qr.energy_units(units)) if units else contextlib.nullcontext
    with qr.energy_units("int"):
        ax = qr.FrequencyAxis(start, N, step)
        sp = qr.AbsSpectrum(axis=ax, data=d.copy())
        with cx.concrete():
            ax2 = qr.FrequencyAxis(0.5, N, 0.25)
        sp2 = qr.AbsSpectrum(axis=ax2, data=numpy.zeros(N))
    label = "spectrum_roundtrip_%s" % ext.strip(".")
    with file_io(cx) as tmp:
        name = os.path.join(tmp, "s" + ext)
        try:
            with ctx(), contextlib.redirect_stdout(open(os.devnull, "w")):
                want_axis = numpy.array(sp.axis.data).copy()
                sp.save_data(name)
                sp2.load_data(name)
                got_axis = numpy.array(sp2.axis.data).copy()
        except Exception as e:      # noqa: BLE001
            cx.fail(label, "%s: %s" % (type(e).__name__, str(e)[:120]))
            return
    cx.prove(label + "_shape", numpy.asarray(sp2.data).shape == (N,) and got_axis.shape == (N,))
    if numpy.asarray(sp2.data).shape != (N,) or got_axis.shape != (N,):
        return
    cx.prove_eq(label + "_data", sp2.data, d, tol=1e-12)
    cx.prove_eq(label + "_axis", got_axis, want_axis, tol=1e-9)
    cx.prove_eq("exported_spectrum_unchanged", sp.data, d)
