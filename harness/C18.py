"""C18 Saved objects and exported data load back to the same physical values."""
import copy
import os
import tempfile
import contextlib
import numpy
from vf.framework import harness
from harness.common import spectral_hamiltonian, tensor_with_identities

F_S = "quantarhei/core/saveable.py"
F_P = "quantarhei/core/parcel.py"


@contextlib.contextmanager
def pickle_as_deepcopy(cx):
    """symbolic mode: dill.dump/load of the parcel module replaced by a deep copy of the object graph
    kept in memory (the default pickling of these classes copies __dict__ recursively; symbolic numbers
    are immutable and shared).  Replay mode: the real dill."""
    if not cx.sym:
        yield
        return
    import quantarhei.core.parcel as parcel
    store = {}

    class P:
        @staticmethod
        def dump(obj, f):
            store[getattr(f, "name", id(f))] = copy.deepcopy(obj)

        @staticmethod
        def load(f):
            return copy.deepcopy(store[getattr(f, "name", id(f))])
    old = parcel.pickle
    parcel.pickle = P
    cx.note("dill.dump/dill.load stubbed by an in-memory deep copy of the object graph")
    try:
        yield
    finally:
        parcel.pickle = old


def make_object(cx, kind, N=2):
    import quantarhei as qr
    with cx.concrete():
        if kind == "Operator":
            o = qr.qm.Operator(dim=N, real=False)
        elif kind == "Hamiltonian":
            o = qr.Hamiltonian(data=numpy.diag(numpy.arange(N, dtype=float)))
        elif kind == "ReducedDensityMatrix":
            o = qr.ReducedDensityMatrix(dim=N)
        elif kind == "RelaxationTensor":
            from quantarhei.qm.liouvillespace.relaxationtensor import RelaxationTensor
            o = RelaxationTensor()
            o.dim = N
    if kind == "Hamiltonian":
        X = cx.real_symmetric("X", N)
    elif kind == "RelaxationTensor":
        X = tensor_with_identities(cx, N, "X")
        o._data_initialized = True
    else:
        X = cx.hermitian("X", N)
    o._data = X.copy()
    return o, X


@harness("C18", "basis_contexts",
         quick=[dict(kind=k, prog=p) for k in ("Operator", "Hamiltonian") for p in
                ("plain", "save_inside_untouched", "save_inside_after_read", "load_inside")],
         thorough=[dict(kind=k, prog=p) for k in ("Operator", "Hamiltonian", "ReducedDensityMatrix", "RelaxationTensor")
                   for p in ("plain", "save_inside_untouched", "save_inside_after_read", "load_inside",
                             "save_inside_load_inside_other")],
         functions=[F_S + ":Saveable.save", F_S + ":Saveable.load", F_S + ":Saveable.scopy", F_P + ":Parcel.save",
                    F_P + ":save_parcel", F_P + ":load_parcel", "quantarhei/utils/types.py:basis_managed_array_property",
                    "quantarhei/core/managers.py:Manager.transform_to_current_basis"],
         bound="N=2 objects (operator, Hamiltonian, density matrix, relaxation tensor) with symbolic data; programs "
               "[save, load] with the save and/or the load inside eigenbasis_of(H) (H given by its eigen-"
               "decomposition), before or after the object was read there: the loaded object's data read outside "
               "every context equal the original's",
         out="the pickle byte format itself (dill) - stubbed by a deep copy, validated by the concrete replay; HDF5")
def basis_contexts(cx, kind, prog):
    import quantarhei as qr
    N = 2
    H, w, S = spectral_hamiltonian(cx, N)
    with cx.concrete():
        ham = qr.Hamiltonian(data=numpy.diag(numpy.arange(N, dtype=float)))
    ham._data = H.copy()
    obj, X = make_object(cx, kind)
    d = tempfile.mkdtemp(prefix="verif-c18-")
    fn = os.path.join(d, "o.qrp")
    try:
        with pickle_as_deepcopy(cx):
            loaded = None
            if prog == "plain":
                obj.save(fn)
                loaded = qr.load_parcel(fn)
            elif prog in ("save_inside_untouched", "save_inside_after_read"):
                with qr.eigenbasis_of(ham):
                    if prog == "save_inside_after_read":
                        _ = obj.data
                    obj.save(fn)
                loaded = qr.load_parcel(fn)
            elif prog == "load_inside":
                obj.save(fn)
                with qr.eigenbasis_of(ham):
                    loaded = qr.load_parcel(fn)
                    _ = loaded.data
            else:
                with cx.concrete():
                    ham2 = qr.Hamiltonian(data=numpy.diag(numpy.arange(N, dtype=float)))
                G = cx.real_symmetric("G", N)
                ham2._data = G.copy()
                if cx.sym:
                    from symnum import linalg
                    linalg.use_eigh(eigen_equation=True, signs=False)
                with qr.eigenbasis_of(ham):
                    _ = obj.data
                    obj.save(fn)
                loaded = qr.load_parcel(fn)
        try:
            got = loaded.data
        except Exception as e:
            cx.fail("loaded_readable", "reading the loaded object's data raised %s: %s" % (type(e).__name__, e))
            return
        cx.prove_eq("loaded_equals_original", got, X, tol=1e-7)
        cx.prove_eq("original_untouched", obj.data, X, tol=1e-7)
    finally:
        import shutil
        shutil.rmtree(d, ignore_errors=True)


@harness("C18", "units_contexts",
         quick=[dict(kind=k, u1=a, u2=b) for k in ("Hamiltonian", "FrequencyAxis") for (a, b) in
                (("1/cm", "eV"), ("eV", None), (None, "1/cm"))],
         thorough=[dict(kind=k, u1=a, u2=b) for k in ("Hamiltonian", "FrequencyAxis", "Molecule")
                   for a in (None, "1/cm", "eV", "nm") for b in (None, "1/cm", "THz")],
         functions=[F_S + ":Saveable.save", F_P + ":load_parcel", "quantarhei/utils/types.py:units_managed_property",
                    "quantarhei/utils/types.py:managed_array_property"],
         bound="Hamiltonian / FrequencyAxis (thorough also Molecule) with symbolic values saved inside energy-units "
               "context u1 and loaded inside u2: internal values and the values read under any common context agree",
         out="")
def units_contexts(cx, kind, u1, u2):
    import quantarhei as qr
    v = cx.real("v", 0.5, 2.0)
    w = cx.real("w", 0.5, 2.0)
    cx.assume(v != 0, "values != 0")
    cx.assume(w != 0)
    if kind == "Hamiltonian":
        with cx.concrete():
            o = qr.Hamiltonian(data=numpy.diag(numpy.arange(2, dtype=float)))
        X = numpy.empty((2, 2), dtype=object if cx.sym else float)
        X[0, 0], X[0, 1], X[1, 0], X[1, 1] = v, w, w, v + w
        o._data = X.copy()
        read = lambda z: z.data
    elif kind == "FrequencyAxis":
        o = qr.FrequencyAxis(v, 3, w)
        read = lambda z: numpy.array([z.start, z.step] + list(z.data), dtype=object if cx.sym else float)
    else:
        with cx.concrete():
            o = qr.Molecule(elenergies=[0.0, 1.0])
        en = numpy.empty(2, dtype=object if cx.sym else float)
        en[0], en[1] = v, v + w
        o.elenergies = en
        read = lambda z: numpy.array([z.get_energy(0), z.get_energy(1)], dtype=object if cx.sym else float)
    c1 = qr.energy_units(u1) if u1 else contextlib.nullcontext()
    c2 = qr.energy_units(u2) if u2 else contextlib.nullcontext()
    d = tempfile.mkdtemp(prefix="verif-c18-")
    fn = os.path.join(d, "o.qrp")
    try:
        with pickle_as_deepcopy(cx):
            with c1:
                o.save(fn)
            with c2:
                loaded = qr.load_parcel(fn)
        cx.prove_eq("internal_same", read(loaded), read(o), tol=1e-9)
        with qr.energy_units("1/cm"):
            a, b = read(loaded), read(o)
        cx.assume_denominators_nonzero("values != 0")
        cx.prove_eq("same_in_common_units", a, b, tol=1e-9)
    finally:
        import shutil
        shutil.rmtree(d, ignore_errors=True)
