"""C09 Bath correlation functions add linearly and carry consistent parameters."""
import itertools
import numpy
from vf.framework import harness
from harness.common import grid_phase

F_CF = "quantarhei/qm/corfunctions/correlationfunctions.py"
F_SD = "quantarhei/qm/corfunctions/spectraldensities.py"

TYPES = {"OB": "OverdampedBrownian", "HT": "OverdampedBrownian-HighTemperature", "VD": "Value-defined",
         "UB": "UnderdampedBrownian"}


def component(cx, time, kind, idx, T, concrete_bath=False):
    """one correlation function of the given kind with symbolic parameters (internal units)"""
    import quantarhei as qr
    lam = cx.real("lam%d" % idx, 0.001, 0.01)
    if concrete_bath and kind != "VD":
        # only the reorganisation energy symbolic: the data are lam times concrete numbers, so a wrong number
        # of Matsubara terms or a wrong branch shows up in a linear query
        params = dict(ftype=TYPES[kind], reorg=lam, cortime=100.0 - 20 * idx, T=T, matsubara=2)
        with qr.energy_units("int"):
            return qr.CorrelationFunction(time, params)
    if kind == "VD":
        vals = cx.cplx_array("v%d" % idx, time.length)
        params = dict(ftype=TYPES[kind], reorg=lam, T=T)
        with qr.energy_units("int"):
            return qr.CorrelationFunction(time, params, values=vals)
    if kind == "UB":
        # built through the spectral density and the (stubbed) discrete Fourier transform
        gam, om0 = cx.real("gamma%d" % idx, 0.005, 0.02), cx.real("freq%d" % idx, 0.05, 0.2)
        cx.assume(gam > 0, "dampings, frequencies > 0")
        cx.assume(om0 > 0)
        params = dict(ftype=TYPES[kind], reorg=lam, gamma=gam, freq=om0, T=T)
        with qr.energy_units("int"):
            return qr.CorrelationFunction(time, params)
    tau = cx.real("tau%d" % idx, 50.0, 150.0)
    cx.assume(tau > 0, "correlation times > 0")
    params = dict(ftype=TYPES[kind], reorg=lam, cortime=tau, T=T, matsubara=1)
    with qr.energy_units("int"):
        return qr.CorrelationFunction(time, params)


def same_params(cx, label, got, want):
    ok = len(got) == len(want) and all(g["ftype"] == w["ftype"] for g, w in zip(got, want))
    cx.prove(label + "/params_types", ok)
    if not ok:
        return
    for i, (g, w) in enumerate(zip(got, want)):
        for key in ("reorg", "cortime"):
            if key in w:
                cx.prove_eq(label + "/params[%d].%s" % (i, key), g[key], w[key])


@harness("C09", "addition",
         quick=[dict(kinds=["OB", "HT", "OB"], concrete_bath=True), dict(kinds=["UB", "OB"])] +
               [dict(kinds=list(k)) for k in (("OB", "HT", "OB"), ("HT", "OB", "HT"), ("OB", "OB", "VD"),
                                              ("HT", "OB", "VD"))],
         thorough=[dict(kinds=["OB", "HT", "OB"], concrete_bath=True), dict(kinds=["OB", "OB"], concrete_bath=True),
                   dict(kinds=["UB", "OB"]), dict(kinds=["OB", "UB", "HT"]), dict(kinds=["UB", "UB"])] +
                  [dict(kinds=list(k)) for k in itertools.product(("OB", "HT"), ("OB", "HT"), ("OB", "HT", "VD"))] +
                  [dict(kinds=["OB", "HT", "OB", "HT"]), dict(kinds=["HT", "HT", "OB", "VD"])],
         functions=[F_CF + ":CorrelationFunction.__init__", F_CF + ":CorrelationFunction.__add__",
                    F_CF + ":CorrelationFunction.__iadd__", F_CF + ":CorrelationFunction.add_to_data",
                    F_CF + ":CorrelationFunction.add_to_data2", F_CF + ":CorrelationFunction._make_overdamped_brownian",
                    F_CF + ":CorrelationFunction._make_overdamped_brownian_ht",
                    F_CF + ":CorrelationFunction._make_value_defined", F_CF + ":CorrelationFunction._matsubara"],
         bound="3 (thorough also 4) components from {overdamped Brownian, its high-temperature form, underdamped Brownian "
               "(built through its spectral density and the stubbed discrete Fourier transform), value-defined "
               "(only as last/right operand)} on a 3-point time axis, one Matsubara term; reorganisation energies, "
               "correlation times, temperature and the value-defined data symbolic; exp and tan uninterpreted; "
               "groupings (a+b)+c, a+(b+c), a+=b+=c and a copy rebuilt from the parameter list",
         out="FFT-based component types (UnderdampedBrownian, Underdamped, B777, CP29): their data come from numerical "
             "transforms; measured vs declared reorganisation energy (numerical quadrature)")
def addition(cx, kinds, concrete_bath=False):
    import quantarhei as qr
    with cx.concrete():
        time = qr.TimeAxis(0.0, 3, 10.0)
    if concrete_bath:
        T = 300.0
    else:
        T = cx.real("T", 100.0, 300.0)
        cx.assume(T > 0, "temperature > 0")
    comps = [component(cx, time, k, i, T, concrete_bath) for i, k in enumerate(kinds)]
    cx.assume_denominators_nonzero("parameters away from the poles of the analytic formulas "
                                   "(2 pi kT n != 1/tau, tan(1/(2kT tau)) finite and non-zero)")
    datas = [c.data.copy() for c in comps]
    lambs = [c.lamb for c in comps]
    plist = [dict(p) for c in comps for p in c.params]
    plist_keys = [list(c.params[0].keys()) for c in comps]
    total = datas[0]
    for d in datas[1:]:
        total = total + d
    ltot = lambs[0]
    for l in lambs[1:]:
        ltot = ltot + l

    # every analytic component is reproduced by the parameter list it carries
    for i, (c, k) in enumerate(zip(comps, kinds)):
        if k != "VD":
            r = c.copy()
            cx.assume_denominators_nonzero("parameters away from the poles of the analytic formulas")
            cx.prove("component_rebuilt[%d]/params_keys" % i,
                     len(r.params) == 1 and sorted(r.params[0].keys()) == sorted(plist_keys[i]))
            cx.prove_eq("component_rebuilt[%d]/data" % i, r.data, datas[i])
            cx.prove_eq("component_rebuilt[%d]/lamb" % i, r.lamb, lambs[i])
            if cx.failed_so_far():
                return

    def check(label, f):
        cx.prove_eq(label + "/data", f.data, total)
        cx.prove_eq(label + "/lamb", f.lamb, ltot)
        same_params(cx, label, f.params, plist)
        cx.prove_eq(label + "/temperature", f.temperature, T)

    # left grouping ((a+b)+c)+...
    f = comps[0]
    for c in comps[1:]:
        f = f + c
    check("left", f)
    # operands untouched
    for i, c in enumerate(comps):
        cx.prove_eq("operand_untouched[%d]" % i, c.data, datas[i])
        cx.prove("operand_params_untouched[%d]" % i, len(c.params) == 1)
    # right grouping a+(b+(c+...)) -- value-defined can only be the right-most operand
    if "VD" not in kinds[:-1] and len(comps) >= 3 and kinds[-1] != "VD":
        g = comps[-1]
        for c in reversed(comps[:-1]):
            g = c + g
        cx.prove_eq("right/data", g.data, total)
        cx.prove_eq("right/lamb", g.lamb, ltot)
    elif len(comps) >= 3:
        # a + (b + c) with c value-defined: (b + c) is rebuilt from b's parameters and gets c's data added
        g = comps[0] + (comps[1] + comps[2]) if len(comps) == 3 else None
        if g is not None and kinds[2] != "VD":
            cx.prove_eq("right/data", g.data, total)
    # in-place
    with qr.energy_units("int"):
        h = qr.CorrelationFunction(time, comps[0].params)
    for c in comps[1:]:
        h += c
    check("inplace", h)
    # a copy rebuilt from the accumulated parameter list (only possible without value-defined parts)
    if "VD" not in kinds:
        check("copy", f.copy())


@harness("C09", "temperature_mismatch",
         quick=[dict(kinds=["OB", "HT"])], thorough=[dict(kinds=k) for k in (["OB", "HT"], ["OB", "OB"], ["HT", "VD"])],
         functions=[F_CF + ":CorrelationFunction.add_to_data", F_CF + ":CorrelationFunction.add_to_data2"],
         bound="two components at symbolic temperatures T1 != T2: addition is refused and the operands of a+b are "
               "left unchanged",
         out="")
def temperature_mismatch(cx, kinds):
    import quantarhei as qr
    with cx.concrete():
        time = qr.TimeAxis(0.0, 3, 10.0)
    T1 = cx.real("T1", 100.0, 200.0)
    T2 = cx.real("T2", 250.0, 300.0)
    cx.assume(T1 > 0, "temperatures > 0 and different")
    cx.assume(T2 > 0)
    cx.assume(T1 != T2)
    a = component(cx, time, kinds[0], 0, T1)
    b = component(cx, time, kinds[1], 1, T2)
    cx.assume_denominators_nonzero("parameters away from the poles of the analytic formulas")
    da, db = a.data.copy(), b.data.copy()
    try:
        a + b
        cx.fail("refused_add", "a+b at different temperatures was accepted")
    except Exception:
        pass
    cx.prove_eq("operand_a_unchanged", a.data, da)
    cx.prove_eq("operand_b_unchanged", b.data, db)
    try:
        a += b
        cx.fail("refused_iadd", "a+=b at different temperatures was accepted")
    except Exception:
        pass


@harness("C09", "spectral_density_addition",
         quick=[dict(units=None), dict(units="1/cm"), dict(units=None, ub_at=1), dict(units="1/cm", ub_at=0)],
         thorough=[dict(units=u, ub_at=k) for u in (None, "1/cm", "eV", "THz") for k in (0, 1, 2)],
         functions=[F_SD + ":SpectralDensity.__init__", F_SD + ":SpectralDensity.__add__",
                    F_SD + ":SpectralDensity.__iadd__", F_SD + ":SpectralDensity.add_to_data",
                    F_SD + ":SpectralDensity.add_to_data2", F_SD + ":SpectralDensity._make_overdamped_brownian",
                    F_SD + ":SpectralDensity._make_underdamped_brownian"],
         bound="three analytic spectral-density components (two overdamped, one underdamped Brownian at any of the three "
               "positions) with symbolic "
               "parameters on a 6-point dyadic frequency grid; components constructed in internal units, the "
               "additions (a+b)+c, a+(b+c), a+=b performed inside the given energy-units context",
         out="Underdamped / B777 / CP29 types")
def spectral_density_addition(cx, units, ub_at=2):
    import contextlib
    import quantarhei as qr
    with cx.concrete():
        wa = qr.FrequencyAxis(-3 * 0.0625, 6, 0.0625)
    T = cx.real("T", 100.0, 300.0)
    comps = []
    for i in range(3):
        lam = cx.real("lam%d" % i, 0.001, 0.01)
        if i != ub_at:
            tau = cx.real("tau%d" % i, 50.0, 150.0)
            cx.assume(tau > 0, "correlation times, dampings, frequencies > 0")
            prm = dict(ftype="OverdampedBrownian", reorg=lam, cortime=tau, T=T)
        else:
            gam, om0 = cx.real("gamma", 0.005, 0.02), cx.real("freq", 0.05, 0.2)
            cx.assume(gam > 0)
            cx.assume(om0 > 0)
            prm = dict(ftype="UnderdampedBrownian", reorg=lam, gamma=gam, freq=om0, T=T)
        with qr.energy_units("int"):
            comps.append(qr.SpectralDensity(wa, prm))
    cx.assume_denominators_nonzero("positive parameters")
    datas = [c.data.copy() for c in comps]
    total = datas[0] + datas[1] + datas[2]
    ltot = comps[0].lamb + comps[1].lamb + comps[2].lamb
    ctx = (lambda: qr.energy_units(units)) if units else contextlib.nullcontext
    with ctx():
        left = (comps[0] + comps[1]) + comps[2]
        right = comps[0] + (comps[1] + comps[2])
        with qr.energy_units("int"):
            acc = qr.SpectralDensity(wa, comps[0].params)
        acc += comps[1]
        acc += comps[2]
        # self-addition, single and composed
        with qr.energy_units("int"):
            twice = qr.SpectralDensity(wa, comps[0].params)
        twice += twice
        ctwice = comps[0] + comps[1]
        ctwice += ctwice
    cx.assume_denominators_nonzero("positive parameters")
    cx.prove_eq("self_addition/data", twice.data, 2 * datas[0], tol=1e-7)
    cx.prove_eq("self_addition/lamb", twice.lamb, 2 * comps[0].lamb, tol=1e-9)
    cx.prove_eq("composed_self_addition/data", ctwice.data, 2 * (datas[0] + datas[1]), tol=1e-7)
    cx.prove_eq("composed_self_addition/lamb", ctwice.lamb, 2 * (comps[0].lamb + comps[1].lamb), tol=1e-9)
    for name, f in (("left", left), ("right", right), ("inplace", acc)):
        cx.prove_eq(name + "/data", f.data, total, tol=1e-7)
        cx.prove_eq(name + "/lamb", f.lamb, ltot, tol=1e-9)
        cx.prove(name + "/params", [p["ftype"] for p in f.params] ==
                 [("UnderdampedBrownian" if i == ub_at else "OverdampedBrownian") for i in range(3)])
    # every sum is reproduced by the component list it carries (any position of the underdamped component)
    with qr.energy_units("int"):
        rebuilt = qr.SpectralDensity(wa, left.params)
    cx.prove_eq("rebuilt/data", rebuilt.data, total, tol=1e-7)
    cx.prove_eq("rebuilt/lamb", rebuilt.lamb, ltot, tol=1e-9)
    for i, c in enumerate(comps):
        cx.prove_eq("operand_untouched[%d]" % i, c.data, datas[i])


def _parts_reference(cx, label, time, w, data):
    """even / odd parts of the Fourier transform of a function given on the upper half axis
    with c(-t) = conj c(t):  E(w) = dt [Re c0 + 2 sum Re c_n cos(w t_n)],
    O(w) = -2 dt sum Im c_n sin(w t_n), at every point of the returned frequency axis"""
    from symnum import core
    M = 2 * time.length
    dt = time.step
    ev, od = [], []
    for k in range(w.length):
        e_acc = core.lift(data[0]).real if cx.sym else data[0].real
        o_acc = 0
        for n in range(1, time.length):
            ph = grid_phase(cx, "%s[%d,%d]" % (label, k, n), w.data[k], time.data[n], M)
            c = core.lift(data[n]) if cx.sym else data[n]
            e_acc = e_acc + 2 * c.real * ph.real
            o_acc = o_acc - 2 * c.imag * ph.imag
        ev.append(e_acc * dt)
        od.append(o_acc * dt)
    return ev, od


@harness("C09", "fourier_parts",
         quick=[dict(N=3, kinds=["OB"]), dict(N=4, kinds=["VD"]), dict(N=3, kinds=["OB", "HT"])],
         thorough=[dict(N=n, kinds=k) for n in (3, 4, 6) for k in (["OB"], ["HT"], ["VD"], ["OB", "HT"], ["HT", "OB", "OB"])] +
                  [dict(N=12, kinds=["VD"]), dict(N=10, kinds=["OB"])],
         functions=[F_CF + ":EvenFTCorrelationFunction.__init__", F_CF + ":OddFTCorrelationFunction.__init__",
                    F_CF + ":CorrelationFunction.get_EvenFTCorrelationFunction",
                    F_CF + ":CorrelationFunction.get_OddFTCorrelationFunction",
                    "quantarhei/core/dfunction.py:DFunction.get_Fourier_transform",
                    "quantarhei/core/dfunction.py:DFunction._add_me"],
         bound="time axes of N = 3, 4 (thorough 6, 10, 12) points (transform length 2N, exact roots of unity); single "
               "components and sums of 2-3 analytic components with symbolic parameters, value-defined data arbitrary "
               "complex: the returned even / odd parts equal the cosine / sine sums of Re c / Im c on the returned "
               "axis, hence are even / odd about the zero-frequency point (asserted separately) and the odd part "
               "vanishes there; parts of a sum are the sums of the parts",
         out="windowed transforms; lengths whose roots of unity have no closed radical form")
def fourier_parts(cx, N, kinds):
    import quantarhei as qr
    from quantarhei.qm.corfunctions.correlationfunctions import (EvenFTCorrelationFunction,
                                                                  OddFTCorrelationFunction)
    with cx.concrete():
        time = qr.TimeAxis(0.0, N, 10.0)
    T = cx.real("T", 100.0, 300.0)
    cx.assume(T > 0, "temperature > 0")
    comps = [component(cx, time, k, i, T) for i, k in enumerate(kinds)]
    cx.assume_denominators_nonzero("parameters away from the poles of the analytic formulas")
    total = comps[0]
    data = comps[0].data.copy()
    for c in comps[1:]:
        total = total + c
        data = data + c.data
    if kinds == ["VD"]:
        with qr.energy_units("int"):
            ev = EvenFTCorrelationFunction(time, total.params[0], values=data.copy())
            od = OddFTCorrelationFunction(time, total.params[0], values=data.copy())
    else:
        ev = total.get_EvenFTCorrelationFunction()
        od = total.get_OddFTCorrelationFunction()
    cx.assume_denominators_nonzero("parameters away from the poles of the analytic formulas")
    w = ev.axis
    cx.prove("axis_length", w.length == 2 * N and od.axis.length == 2 * N)
    cx.prove_eq("axes_agree", od.axis.data, w.data)
    cx.prove_eq("zero_frequency_at_centre", w.data[N], 0)
    e_ref, o_ref = _parts_reference(cx, "parts", time, w, data)
    for k in range(2 * N):
        cx.prove_eq("even_is_cosine_sum[%d]" % k, ev.data[k], e_ref[k])
        cx.prove_eq("odd_is_sine_sum[%d]" % k, od.data[k], o_ref[k])
    for k in range(1, N):
        cx.prove_eq("even_part_even[%d]" % k, ev.data[N + k], ev.data[N - k])
        cx.prove_eq("odd_part_odd[%d]" % k, od.data[N + k], -od.data[N - k])
    cx.prove_eq("odd_part_zero_at_origin", od.data[N], 0)
