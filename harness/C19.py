"""C19 Two-dimensional response storage conserves what was added.

Bounded histories over {add(level, dtype, tag, X_j), set_resolution(r)} on 1x1 axes with
X_j symbolic complex.  A ghost ledger records every ACCEPTED addition as (set of pathway
types it belongs to, tag, X_j).  After every operation:
  * an operation that raised must have left the storage and the resolution unchanged;
  * the total view must be readable and equal the sum of the ledger;
  * every other view the implementation serves at the current resolution and whose
    value the ledger determines (each ledger entry lies inside or outside the view)
    must equal the ledger sum for it.
"""
import copy
import itertools
import numpy
from vf.framework import harness

F = "quantarhei/spectroscopy/twod2.py"

PTYPES = ["R1g", "R2g", "R3g", "R4g", "R1fs", "R2fs", "R3fs", "R4fs"]
PROCESSES = dict(GSB=["R1g", "R2g"], SE=["R3g", "R4g"], ESA=["R1fs", "R2fs"], DC=["R3fs", "R4fs"])
RESOLUTIONS = ["off", "signals", "processes", "types", "pathways"]


def _signals():
    import quantarhei as qr
    return {qr.signal_REPH: ["R2g", "R3g", "R1fs"], qr.signal_NONR: ["R1g", "R4g", "R2fs"],
            qr.signal_DC: ["R3fs", "R4fs"]}


def alphabet(kind):
    import quantarhei as qr
    sig = _signals()
    ops = []
    if kind == "full":
        pts, tags = PTYPES, ["a", "b"]
        procs, sigs = list(PROCESSES), list(sig)
    else:
        pts, tags = ["R1g", "R2g", "R1fs"], ["a", "b"]
        procs, sigs = ["GSB", "ESA"], [qr.signal_REPH, qr.signal_NONR]
    for p in pts:
        for t in tags:
            ops.append(("add", "pathways", p, t))
    for p in pts:
        ops.append(("add", "types", p, None))
    for p in procs:
        ops.append(("add", "processes", p, None))
    for s in sigs:
        ops.append(("add", "signals", s, None))
    ops.append(("add", "off", qr.signal_TOTL, None))
    ops.append(("add", None, qr.signal_TOTL, None))       # resolution=None: use the storage's
    for r in RESOLUTIONS:
        ops.append(("res", r))
    return ops


def category(level, dtype):
    sig = _signals()
    if dtype in PTYPES:
        return frozenset([dtype])
    if dtype in PROCESSES:
        return frozenset(PROCESSES[dtype])
    if dtype in sig:
        return frozenset(sig[dtype])
    return frozenset(PTYPES)


def views():
    import quantarhei as qr
    sig = _signals()
    v = [(qr.signal_TOTL, frozenset(PTYPES))]
    v += [(p, frozenset([p])) for p in PTYPES]
    v += [(p, frozenset(PROCESSES[p])) for p in PROCESSES]
    v += [(s, frozenset(sig[s])) for s in sig]
    return v


def read_views(tw):
    """every view the object serves right now: flag -> 1x1 value (None counts as 0)"""
    out = {}
    keep = (tw.current_dtype, tw.current_tag, tw.address_length)
    for (flag, vset) in views():
        try:
            tw.set_data_flag(flag)
            val = tw.d__data
        except Exception:
            out[flag] = "raised"
            continue
        out[flag] = 0 if val is None else val[0, 0]
    tw.current_dtype, tw.current_tag, tw.address_length = keep
    return out


def same_views(cx, label, before, after, res_before, res_after):
    """a refused operation leaves the resolution and the content of every view unchanged"""
    cx.prove(label + ".resolution", res_before == res_after)
    for flag in before:
        a, b = before[flag], after[flag]
        if isinstance(a, str) or isinstance(b, str):
            continue        # whether a view is served at all is not stored data
        cx.prove_eq(label + ".view_%s" % flag, a, b, each=False)


def run_history(cx, hist, hid):
    import quantarhei as qr
    with cx.concrete():
        tw = qr.TwoDResponse()
        ax = qr.FrequencyAxis(0.0, 1, 1.0)
    tw.set_axis_1(ax)
    tw.set_axis_3(ax)
    ledger = []        # (category, tag, X)
    zero = 0
    taint = set()      # pathway types hit by the known double-count finding (see known_findings.json)
    for step, op in enumerate(hist):
        lab = "h%s.s%d" % (hid, step)
        before = read_views(tw)
        res_before = tw.storage_resolution
        if op[0] == "add" and op[1] == "types" and tw.storage_resolution == "pathways" \
                and isinstance(getattr(tw, "_d__data", None), dict) \
                and any(t is not None for t in tw._d__data.get(op[2], {})):
            pending_taint = op[2]
        else:
            pending_taint = None
        raised = False
        try:
            if op[0] == "add":
                _, level, dtype, tag = op
                X = cx.cplx("X%d" % step)
                data = numpy.empty((1, 1), dtype=object if cx.sym else complex)
                data[0, 0] = X
                tw._add_data(data, resolution=level, dtype=dtype, tag=tag)
            else:
                tw.set_resolution(op[1])
        except Exception:
            raised = True
        if raised:
            same_views(cx, lab + ".refused", before, read_views(tw), res_before, tw.storage_resolution)
            continue
        if pending_taint:
            taint.add(pending_taint)
        if op[0] == "add":
            ledger.append((category(op[1], op[2]), op[3], X))
        # --- views
        for (flag, vset) in views():
            decidable = all(c <= vset or not (c & vset) for (c, t, x) in ledger)
            try:
                tw.set_data_flag(flag)
                val = tw.d__data
            except Exception:
                val = "raised"
            if flag == qr.signal_TOTL:
                if not ledger and not tw.storage_initialized:
                    continue
                if isinstance(val, str) or val is None:
                    if ledger:
                        cx.fail(lab + ".total_readable", "total view not served: %r" % (val,))
                    continue
                exp = zero
                for (c, t, x) in ledger:
                    exp = exp + x
                cx.prove_eq(("KF-types-into-pathways." if taint else "") + lab + ".total", val[0, 0], exp,
                            each=False)
                continue
            if isinstance(val, str) or not decidable:
                continue
            exp = zero
            for (c, t, x) in ledger:
                if c <= vset:
                    exp = exp + x
            got = val[0, 0] if val is not None else 0
            cx.prove_eq(("KF-types-into-pathways." if (taint & vset) else "") + lab + ".view_%s" % flag,
                        got, exp, each=False)
        # per-tag views at pathway resolution
        if tw.storage_resolution == "pathways":
            seen = {(next(iter(c)), t) for (c, t, x) in ledger if t is not None and len(c) == 1}
            for (p, t) in sorted(seen):
                if p in taint or any(len(c) > 1 and p in c for (c, tt, x) in ledger) or \
                        any(c == frozenset([p]) and tt is None for (c, tt, x) in ledger):
                    continue
                try:
                    tw.set_data_flag([p, t])
                    val = tw.d__data
                except Exception:
                    continue
                exp = zero
                for (c, tt, x) in ledger:
                    if c == frozenset([p]) and tt == t:
                        exp = exp + x
                cx.prove_eq(lab + ".tag_%s_%s" % (p, t), val[0, 0], exp, each=False)


def _instances(kind, length):
    n = len_alphabet[kind]
    return [dict(kind=kind, length=length, first=k) for k in range(n)]


len_alphabet = dict(full=38, reduced=20)


@harness("C19", "histories",
         quick=[dict(kind="full", length=1, first=-1)] + _instances("full", 2) + _instances("reduced", 3),
         thorough=[dict(kind="full", length=1, first=-1)] + _instances("full", 2) + _instances("full", 3)
                  + _instances("reduced", 4),
         functions=[F + ":TwoDSpectrumBase._add_data", F + ":twodspectrum_dictionary",
                    F + ":TwoDSpectrumBase.set_resolution", F + ":TwoDSpectrumBase._convert_resolution",
                    F + ":TwoDSpectrumBase._convert_res_elementary", F + ":TwoDSpectrumBase.set_data_flag",
                    F + ":_pathways_to_processes", F + ":_pathways_to_signals", F + ":_pathways_to_total",
                    F + ":_types_to_processes", F + ":_types_to_signals", F + ":_types_to_total",
                    F + ":_signals_to_total", F + ":_processes_to_total"],
         bound="all histories of length <=2 over the full alphabet (38 operations: add at pathway level for 8 types x "
               "2 tags, at type/process/signal/total level, with explicit or default resolution; 5 resolution "
               "changes) and of length 3 over a reduced alphabet (3 types, 2 tags, 2 processes, 2 signals); "
               "thorough: length 3 full, length 4 reduced; 1x1 axes, every added value an arbitrary complex number",
         out="axes larger than 1x1 (the code treats data arrays as opaque summands); plotting, integrals, containers",
         timeout=1200)
def histories(cx, kind, length, first):
    ops = alphabet(kind)
    assert len(ops) == len_alphabet[kind], len(ops)
    if first < 0:
        hs = [(o,) for o in ops]
    else:
        hs = [(ops[first],) + rest for rest in itertools.product(ops, repeat=length - 1)]
    for i, hist in enumerate(hs):
        run_history(cx, hist, "%d_%d" % (first, i))
    cx.note("histories in this instance: %d" % len(hs))
