"""C16 Hierarchical equations: complete index set, consistent links, valid states."""
import math
import types
import numpy
from vf.framework import harness

F = "quantarhei/qm/liouvillespace/heom.py"


def make_hierarchy(cx, nbath, depth, N, zero_coupling=False, rwa_blocks=None):
    """real KTHierarchy.__init__ driven with stand-ins for the Hamiltonian and the
    system-bath interaction (it only reads N, KK, correlation time, reorganisation energy,
    temperature and the component type)"""
    from quantarhei.qm.liouvillespace.heom import KTHierarchy
    from quantarhei import CorrelationFunction
    lam = [cx.real("lam%d" % k, 0.001, 0.01) for k in range(nbath)]
    if zero_coupling:
        lam = [0.0 * l for l in lam] if not cx.sym else [l * 0 for l in lam]
    tau = [cx.real("tau%d" % k, 50.0, 150.0) for k in range(nbath)]
    T = cx.real("T", 100.0, 300.0)
    for t in tau:
        cx.assume(t > 0, "correlation times > 0")
    cx.assume(T >= 0, "temperature >= 0")
    V = numpy.empty((nbath, N, N), dtype=object if cx.sym else float)
    for k in range(nbath):
        V[k] = cx.real_symmetric("V%d" % k, N)
    # one correlation function per bath, each carrying its own (different) parameters, as the
    # real CorrelationFunctionMatrix does
    cfs = [types.SimpleNamespace(params=[dict(ftype=CorrelationFunction.allowed_types[0], cortime=tau[k],
                                              reorg=lam[k], T=T)]) for k in range(nbath)]
    sbi = types.SimpleNamespace(
        N=nbath, KK=V, CC=types.SimpleNamespace(get_correlation_function=lambda i, j: cfs[i]),
        get_correlation_time=lambda i: tau[i], get_reorganization_energy=lambda i: lam[i],
        get_temperature=lambda: T)
    H = cx.hermitian("H", N)
    if rwa_blocks is None:
        om = cx.real_array("Om", N)
        rwa_indices = numpy.arange(N)
    else:
        # rotating-wave blocks starting at the given state indices: one frequency per BLOCK, stored per STATE
        # (as Hamiltonian.set_rwa does)
        blk = cx.real_array("Om", len(rwa_blocks))
        bounds = list(rwa_blocks) + [N]
        om = numpy.empty(N, dtype=object if cx.sym else float)
        for b in range(len(rwa_blocks)):
            for i in range(bounds[b], bounds[b + 1]):
                om[i] = blk[b]
        rwa_indices = numpy.array(rwa_blocks)
    ham = types.SimpleNamespace(dim=N, data=H, has_rwa=True, rwa_indices=rwa_indices,
                                rwa_energies=om)
    hy = KTHierarchy(ham, sbi, depth)
    return hy, dict(lam=lam, tau=tau, T=T, V=V, H=H, om=om)


def ncomb(l, K):
    return math.comb(l + K - 1, K - 1)


@harness("C16", "index_tables",
         quick=[dict(nbath=k, depth=d) for k in (1, 2, 3) for d in (0, 1, 2, 3)] + [dict(nbath=2, depth=11)],
         thorough=[dict(nbath=k, depth=d) for k in (1, 2, 3, 4) for d in (0, 1, 2, 3, 4, 5)] +
                  [dict(nbath=2, depth=d) for d in (9, 10, 11, 12)] + [dict(nbath=3, depth=11)],
         functions=[F + ":KTHierarchy.__init__", F + ":KTHierarchy.generate_indices",
                    F + ":KTHierarchy._convert_2_matrix", F + ":KTHierarchy._make_nmp1",
                    F + ":KTHierarchy._make_Gamma"],
         bound="number of baths <= 3, depth <= 3, plus 2 baths at depth 11 (two-digit orders) (thorough 4 baths, depth 5; 2 baths depth 9-12; 3 baths depth 11); the tables the real code builds are "
               "embedded as integer functions and every quantified statement (exists a multi-index / a row / a "
               "link violating ...) is a z3 query over integer variables; Gamma with symbolic decay rates",
         out="larger hierarchies")
def index_tables(cx, nbath, depth):
    hy, inp = make_hierarchy(cx, nbath, depth, 2)
    check_tables(cx, hy, nbath, depth, inp["tau"])


def check_tables(cx, hy, K, D, taus):
    """every statement about the index set, the level layout, the links and Gamma, for the hierarchy object
    `hy` that was REQUESTED with K baths and depth D (decay times taus)"""
    hs = hy.hsize
    inp = dict(tau=taus)
    cx.prove("depth_as_requested", int(hy.depth) == D)
    hinds = numpy.asarray(hy.hinds)
    nm1, np1 = numpy.asarray(hy.nm1), numpy.asarray(hy.np1)
    levels, levl = list(hy.levels), list(hy.levlengths)
    # Gamma[n] = sum_k n_k gamma_k for every row (symbolic gamma = 1/tau)
    for r in range(hs):
        ref = 0
        for k in range(K):
            ref = ref + int(hinds[r, k]) * (1.0 / inp["tau"][k])
        cx.prove_eq("Gamma[%d]" % r, hy.Gamma[r], ref)
    cx.prove("shapes", hinds.shape == (hs, K) and nm1.shape == (hs, K) and np1.shape == (hs, K)
             and len(levels) == D + 1 and len(levl) == D + 1)
    if not cx.sym:
        # replay: plain enumeration of the same statements
        import itertools
        rows = [tuple(int(x) for x in hinds[r]) for r in range(hs)]
        allidx = [n for n in itertools.product(range(D + 1), repeat=K) if sum(n) <= D]
        cx.prove("complete", all(n in rows for n in allidx))
        cx.prove("unique", len(set(rows)) == len(rows))
        cx.prove("rows_admissible", all(min(x) >= 0 and sum(x) <= D for x in rows))
        cx.prove("level_of_row", all(sum(rows[r]) == l for l in range(D + 1)
                                     for r in range(levels[l], min(hs, levels[l] + levl[l]))))
        cx.prove("level_offsets", levels[0] == 0 and all(levels[l + 1] == levels[l] + levl[l]
                                                         for l in range(D)) and levels[D] + levl[D] == hs)
        cx.prove("level_sizes", all(int(levl[l]) == ncomb(l, K) for l in range(D + 1)))
        ok = dict(raise_links=True, lower_links=True, raise_absent_iff_top=True,
                  lower_absent_iff_zero=True, link_values=True)
        for r in range(hs):
            for k in range(K):
                q, m = int(np1[r, k]), int(nm1[r, k])
                if q < -1 or m < -1:
                    ok["link_values"] = False
                if q >= 0:
                    up = list(rows[r]); up[k] += 1
                    if not (q < hs and rows[q] == tuple(up) and int(nm1[q, k]) == r):
                        ok["raise_links"] = False
                if m >= 0:
                    dn = list(rows[r]); dn[k] -= 1
                    if not (m < hs and rows[m] == tuple(dn) and int(np1[m, k]) == r):
                        ok["lower_links"] = False
                if (q == -1) != (sum(rows[r]) == D):
                    ok["raise_absent_iff_top"] = False
                if (m == -1) != (rows[r][k] == 0):
                    ok["lower_absent_iff_zero"] = False
        for lab, v in ok.items():
            cx.prove(lab, v)
        return
    import z3

    def table(name, arr):
        """z3 function r,k -> arr[r,k] as an If-chain (total; -7 outside the table)"""
        r, k = z3.Ints("r k")
        e = z3.IntVal(-7)
        for i in range(arr.shape[0]):
            for j in range(arr.shape[1]):
                e = z3.If(z3.And(r == i, k == j), z3.IntVal(int(arr[i, j])), e)
        return lambda rr, kk: z3.substitute(e, (r, rr), (k, kk))
    Hf, Mf, Pf = table("H", hinds), table("M", nm1), table("P", np1)
    n = [z3.Int("n%d" % k) for k in range(K)]
    r, r2, q, kv = z3.Ints("row row2 q kv")
    inrow = lambda x: z3.And(x >= 0, x < hs)
    ink = lambda x: z3.And(x >= 0, x < K)
    # 1 completeness: no admissible multi-index is missing
    missing = z3.And([nk >= 0 for nk in n] + [z3.Sum(n) <= D] +
                     [z3.Or([n[k] != int(hinds[i, k]) for k in range(K)]) for i in range(hs)])
    cx.prove("complete", z3.Not(missing))
    # 2 uniqueness
    dup = z3.And(inrow(r), inrow(r2), r < r2, *[Hf(r, z3.IntVal(k)) == Hf(r2, z3.IntVal(k)) for k in range(K)])
    cx.prove("unique", z3.Not(dup))
    # 3 every row is an admissible multi-index; rows are laid out level by level
    bad_row = z3.And(inrow(r), z3.Or([Hf(r, z3.IntVal(k)) < 0 for k in range(K)] +
                                     [z3.Sum([Hf(r, z3.IntVal(k)) for k in range(K)]) > D]))
    cx.prove("rows_admissible", z3.Not(bad_row))
    lev_of = z3.IntVal(-1)
    for l in range(D + 1):
        lev_of = z3.If(z3.And(r >= int(levels[l]), r < int(levels[l]) + int(levl[l])), z3.IntVal(l), lev_of)
    bad_level = z3.And(inrow(r), z3.Sum([Hf(r, z3.IntVal(k)) for k in range(K)]) != lev_of)
    cx.prove("level_of_row", z3.Not(bad_level))
    cx.prove("level_offsets", int(levels[0]) == 0 and all(
        int(levels[l + 1]) == int(levels[l]) + int(levl[l]) for l in range(D)) and
        int(levels[D]) + int(levl[D]) == hs)
    cx.prove("level_sizes", all(int(levl[l]) == ncomb(l, K) for l in range(D + 1)))
    # 4 links: raising / lowering are what they say, mutually inverse, absent exactly at the boundaries
    up_wrong = z3.And(inrow(r), ink(kv), Pf(r, kv) >= 0, z3.Or(
        z3.Not(inrow(Pf(r, kv))),
        z3.Or([Hf(Pf(r, kv), z3.IntVal(k)) != Hf(r, z3.IntVal(k)) + z3.If(kv == k, 1, 0) for k in range(K)]),
        Mf(Pf(r, kv), kv) != r))
    cx.prove("raise_links", z3.Not(up_wrong))
    dn_wrong = z3.And(inrow(r), ink(kv), Mf(r, kv) >= 0, z3.Or(
        z3.Not(inrow(Mf(r, kv))),
        z3.Or([Hf(Mf(r, kv), z3.IntVal(k)) != Hf(r, z3.IntVal(k)) - z3.If(kv == k, 1, 0) for k in range(K)]),
        Pf(Mf(r, kv), kv) != r))
    cx.prove("lower_links", z3.Not(dn_wrong))
    tot = z3.Sum([Hf(r, z3.IntVal(k)) for k in range(K)])
    up_boundary = z3.And(inrow(r), ink(kv), (Pf(r, kv) == -1) != (tot == D))
    cx.prove("raise_absent_iff_top", z3.Not(up_boundary))
    dn_boundary = z3.And(inrow(r), ink(kv), (Mf(r, kv) == -1) != (Hf(r, kv) == 0))
    cx.prove("lower_absent_iff_zero", z3.Not(dn_boundary))
    link_range = z3.And(inrow(r), ink(kv), z3.Or(Pf(r, kv) < -1, Mf(r, kv) < -1))
    cx.prove("link_values", z3.Not(link_range))


@harness("C16", "builder_entry_points",
         quick=[dict(depth=d, via=v) for d in (1, 3) for v in ("hierarchy", "propagator")] +
               [dict(depth=2, via="propagator", units="1/cm")],
         thorough=[dict(depth=d, via=v) for d in (0, 1, 2, 3, 4, 6) for v in ("hierarchy", "propagator")] +
                  [dict(depth=2, via=v, units=u) for v in ("hierarchy", "propagator") for u in ("1/cm", "eV")],
         functions=["quantarhei/builders/opensystem.py:OpenSystem.get_KTHierarchy",
                    "quantarhei/builders/opensystem.py:OpenSystem.get_KTHierarchyPropagator",
                    F + ":KTHierarchy.__init__", F + ":KTHierarchyPropagator.__init__"],
         bound="a dimer aggregate whose two molecules have different baths (correlation times 100 and 80 fs): the "
               "hierarchy obtained through Aggregate.get_KTHierarchy(depth) and through "
               "get_KTHierarchyPropagator(depth) satisfies the same table statements as above for the REQUESTED depth "
               "(1, 3; thorough 0-6), and its per-bath decay rates and coupling constants are those of the right bath",
         out="")
def builder_entry_points(cx, depth, via, units=None):
    import contextlib
    from harness.common import build_aggregate
    import quantarhei as qr
    reorgs = [20.0, 35.0]
    agg = build_aggregate(cx, 2, Nt=4, reorgs=reorgs)
    with cx.concrete():
        # with units=u the hierarchy is requested inside energy_units(u); its parameters are internal quantities
        with (qr.energy_units(units) if units else contextlib.nullcontext()):
            if via == "hierarchy":
                hy = agg.get_KTHierarchy(depth=depth)
            else:
                hy = agg.get_KTHierarchyPropagator(depth=depth).hy
        sbi = agg.get_SystemBathInteraction()
        taus = [float(sbi.get_correlation_time(k)) for k in range(sbi.N)]
        lams = [float(sbi.get_reorganization_energy(k)) for k in range(sbi.N)]
    cx.prove("two_different_baths", sbi.N == 2 and taus[0] != taus[1] and lams[0] != lams[1])
    check_tables(cx, hy, sbi.N, depth, taus)
    for k in range(sbi.N):
        cx.prove_eq("decay_rate_of_bath[%d]" % k, hy.gamma[k], 1.0 / taus[k], tol=1e-12)
        cx.prove_eq("reorganisation_energy_of_bath[%d]" % k, hy.lam[k], lams[k], tol=1e-12)


def hermitian_ados(cx, hs, N, zero_above=False):
    ado = numpy.empty((hs, N, N), dtype=object if cx.sym else complex)
    for n in range(hs):
        if n > 0 and zero_above:
            ado[n] = cx.const_array(numpy.zeros((N, N)))
        else:
            ado[n] = cx.hermitian("A%d" % n, N)
    return ado


def make_propagator(cx, hy, Nt=2):
    import quantarhei as qr
    from quantarhei.qm.liouvillespace.heom import KTHierarchyPropagator
    with cx.concrete():
        ta = qr.TimeAxis(0.0, Nt, 1.0)
    kp = KTHierarchyPropagator(ta, hy)
    kp.dt = cx.real("dt", 0.01, 0.2)
    return kp


@harness("C16", "rhs_step",
         quick=[dict(nbath=1, depth=2, N=2), dict(nbath=2, depth=2, N=2), dict(nbath=2, depth=1, N=3)],
         thorough=[dict(nbath=k, depth=d, N=n) for (k, d, n) in
                   ((1, 2, 2), (1, 3, 2), (2, 2, 2), (2, 3, 2), (3, 2, 2), (2, 1, 3), (2, 2, 3), (3, 1, 3))],
         functions=[F + ":KTHierarchyPropagator._ado_self_rhs", F + ":KTHierarchyPropagator._ado_cros_rhs",
                    F + ":KTHierarchyPropagator.__init__", F + ":KTHierarchy.__init__"],
         bound="inductive step from ARBITRARY Hermitian auxiliary operators: <=2 baths depth<=2 N=2, 2 baths depth 1 "
               "N=3 (thorough up to 3 baths / depth 3 / N=3); H Hermitian, V_k real symmetric, lambda, 1/tau, T, "
               "RWA frequencies, dt symbolic",
         out="convergence with depth to the analytic pure-dephasing solution (values of transcendental functions)")
def rhs_step(cx, nbath, depth, N):
    hy, inp = make_hierarchy(cx, nbath, depth, N)
    kp = make_propagator(cx, hy)
    ado = hermitian_ados(cx, hy.hsize, N)
    inc = kp._ado_cros_rhs(ado, kp.dt, 0) + kp._ado_self_rhs(ado, kp.dt, 0)
    cx.check_div_obligations("finite")
    cx.prove_eq("trace_level0", numpy.trace(inc[0]), 0)
    for n in range(hy.hsize):
        cx.prove_eq("hermitian[%d]" % n, inc[n], numpy.conj(inc[n].T))


@harness("C16", "closed_system_limit",
         quick=[dict(nbath=2, depth=2, N=2), dict(nbath=1, depth=1, N=4, rwa_blocks=[0, 1, 3])],
         thorough=[dict(nbath=2, depth=2, N=2), dict(nbath=2, depth=2, N=3), dict(nbath=3, depth=3, N=2),
                   dict(nbath=1, depth=1, N=4, rwa_blocks=[0, 1, 3]), dict(nbath=2, depth=1, N=3, rwa_blocks=[0, 2])],
         functions=[F + ":KTHierarchyPropagator._ado_self_rhs", F + ":KTHierarchyPropagator._ado_cros_rhs",
                    F + ":KTHierarchyPropagator.propagate"],
         bound="zero reorganisation energies, auxiliary operators above level 0 zero: one right-hand side and a whole "
               "propagate() run (2 stored times, expansion order 2)",
         out="")
def closed_system_limit(cx, nbath, depth, N, rwa_blocks=None):
    import quantarhei as qr
    hy, inp = make_hierarchy(cx, nbath, depth, N, zero_coupling=True, rwa_blocks=rwa_blocks)
    kp = make_propagator(cx, hy)
    ado = hermitian_ados(cx, hy.hsize, N, zero_above=True)
    inc = kp._ado_cros_rhs(ado, kp.dt, 0) + kp._ado_self_rhs(ado, kp.dt, 0)
    cx.check_div_obligations("finite")
    Heff = inp["H"] - numpy.diag(inp["om"])
    rho = ado[0]
    ref = -1j * kp.dt * (numpy.dot(Heff, rho) - numpy.dot(rho, Heff))
    cx.prove_eq("level0_is_commutator", inc[0], ref)
    for n in range(1, hy.hsize):
        cx.prove_eq("higher_stay_zero[%d]" % n, inc[n], numpy.zeros((N, N), dtype=int))
    # whole run: equals the order-2 Taylor polynomial of the closed-system generator
    with cx.concrete():
        rhoi = qr.ReducedDensityMatrix(dim=N)
    rhoi._data = rho.copy()
    hy.reset_ados()
    rhot = kp.propagate(rhoi, L=2)
    d1 = -1j * kp.dt * (numpy.dot(Heff, rho) - numpy.dot(rho, Heff))
    d2 = -1j * (kp.dt / 2) * (numpy.dot(Heff, d1) - numpy.dot(d1, Heff))
    cx.prove_eq("run_taylor2", rhot.data[1], rho + d1 + d2)


@harness("C16", "propagate_valid",
         quick=[dict(nbath=1, depth=1, N=2, L=2)],
         thorough=[dict(nbath=1, depth=1, N=2, L=2), dict(nbath=2, depth=1, N=2, L=2),
                   dict(nbath=1, depth=2, N=2, L=2)],
         functions=[F + ":KTHierarchyPropagator.propagate", F + ":KTHierarchy.reset_ados"],
         bound="whole propagate() run without abstraction: 1 bath, depth 1, N=2, 2 stored times, order 2 (thorough "
               "2 baths, depth 2; order 4 as a whole run is beyond the solver - every order is covered by the inductive "
               "step above); initial state Hermitian with unit trace",
         out="")
def propagate_valid(cx, nbath, depth, N, L):
    import quantarhei as qr
    hy, inp = make_hierarchy(cx, nbath, depth, N)
    kp = make_propagator(cx, hy)
    rho = cx.hermitian("rho", N)
    cx.assume(numpy.trace(rho).real == 1 if cx.sym else abs(numpy.trace(rho) - 1) < 10, "unit trace")
    if not cx.sym:
        rho = rho / numpy.trace(rho)
    with cx.concrete():
        rhoi = qr.ReducedDensityMatrix(dim=N)
    rhoi._data = rho.copy()
    rhot = kp.propagate(rhoi, L=L)
    cx.check_div_obligations("finite")
    for i in range(2):
        cx.prove_eq("trace[%d]" % i, numpy.trace(rhot.data[i]), 1)
        cx.prove_eq("hermitian[%d]" % i, rhot.data[i], numpy.conj(rhot.data[i].T))


@harness("C16", "propagate_units_independent",
         quick=[dict(units="1/cm")], thorough=[dict(units=u) for u in ("1/cm", "eV")],
         functions=[F + ":KTHierarchyPropagator.propagate", F + ":KTHierarchyPropagator._ado_self_rhs",
                    F + ":KTHierarchy.__init__", "quantarhei/builders/opensystem.py:OpenSystem.get_KTHierarchyPropagator"],
         bound="a concrete dimer aggregate with baths, hierarchy depth 1, expansion order 2, arbitrary Hermitian initial "
               "state (symbolic): the hierarchy built and propagated inside energy_units(u) gives the same stored "
               "states as the one built and propagated outside",
         out="")
def propagate_units_independent(cx, units):
    from harness.common import build_aggregate
    import quantarhei as qr
    agg = build_aggregate(cx, 2, Nt=4, reorgs=[20.0, 35.0])
    N = agg.HamOp.dim
    rho0 = cx.hermitian("rho", N)

    def run():
        with cx.concrete():
            kp = agg.get_KTHierarchyPropagator(depth=1)
            rhoi = qr.ReducedDensityMatrix(dim=N)
        rhoi._data = rho0.copy()
        return numpy.array(kp.propagate(rhoi, L=2).data[1]).copy()
    outside = run()
    with qr.energy_units(units):
        inside = run()
    cx.prove_eq("same_dynamics_inside_units_context", inside, outside, tol=1e-9)
