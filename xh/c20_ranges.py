"""CrossHair conditions for C20: the real block-distribution helpers of
quantarhei.core.parallel, driven with symbolic integers.

Every condition is a function returning bool with ``post: _``; its ``*_twin``
has the same preconditions and body and ``post: not _`` so CrossHair must produce a
counterexample for it (reachability witness).  Bounds come from the environment so
that the quick / thorough tiers share the code.
"""
import os
from types import SimpleNamespace
from typing import List

from quantarhei.core import parallel as P

MAXSIZE = int(os.environ.get("XH_MAXSIZE", "6"))
MAXLEN = int(os.environ.get("XH_MAXLEN", "5"))


def _blocks(size, start, stop):
    out = []
    for rank in range(size):
        cfg = SimpleNamespace(size=size, rank=rank)
        out.append(P._calculate_ranges(cfg, start, stop))
    return out


def _partition_ok(b, start, stop):
    ok = b[0][0] == start and b[-1][1] == stop
    for r in range(len(b)):
        ok = ok and b[r][0] <= b[r][1]
    for r in range(len(b) - 1):
        ok = ok and b[r][1] == b[r + 1][0]
    sizes = [x[1] - x[0] for x in b]
    ok = ok and max(sizes) - min(sizes) <= 1
    return ok


def ranges_partition(size: int, start: int, stop: int) -> bool:
    """
    pre: 1 <= size <= MAXSIZE
    pre: start <= stop
    post: _
    """
    return _partition_ok(_blocks(size, start, stop), start, stop)


def ranges_partition_twin(size: int, start: int, stop: int) -> bool:
    """
    pre: 1 <= size <= MAXSIZE
    pre: start <= stop
    post: not _
    """
    _partition_ok(_blocks(size, start, stop), start, stop)
    return True


class _Cfg:
    """stand-in for the MPI environment: for one call the helpers see a
    configuration object saying "process `rank` of `size`, parallel level `level`,
    inside a parallel region" (contract: 1 <= size, 0 <= rank < size)"""

    def __init__(self, size, rank, level=1):
        self.cfg = SimpleNamespace(size=size, rank=rank, parallel_level=level,
                                   parallel_region=1)

    def __enter__(self):
        import quantarhei.core.managers as mm
        self.mm = mm
        self.old = mm.Manager
        cfg = self.cfg
        mm.Manager = lambda: SimpleNamespace(get_DistributedConfiguration=lambda: cfg)
        return cfg

    def __exit__(self, *a):
        self.mm.Manager = self.old


def _range_blocks(size, start, stop):
    out = []
    for rank in range(size):
        with _Cfg(size, rank):
            r = P.block_distributed_range(start, stop)
        out.append([r.start, r.stop])
        if r.step != 1:
            return None
    return out


def range_helper_partition(size: int, start: int, stop: int) -> bool:
    """
    pre: 1 <= size <= MAXSIZE
    pre: start <= stop
    post: _
    """
    b = _range_blocks(size, start, stop)
    return b is not None and _partition_ok(b, start, stop)


def range_helper_partition_twin(size: int, start: int, stop: int) -> bool:
    """
    pre: 1 <= size <= MAXSIZE
    pre: start <= stop
    post: not _
    """
    _range_blocks(size, start, stop)
    return True


def range_helper_serial(start: int, stop: int) -> bool:
    """
    pre: start <= stop
    post: _
    """
    with _Cfg(1, 0, level=0):
        r = P.block_distributed_range(start, stop)
    return r.start == start and r.stop == stop and r.step == 1


def range_helper_serial_twin(start: int, stop: int) -> bool:
    """
    pre: start <= stop
    post: not _
    """
    with _Cfg(1, 0, level=0):
        P.block_distributed_range(start, stop)
    return True


def _list_union(size, dlist, return_index, level=1):
    got = []
    sizes = []
    for rank in range(size):
        with _Cfg(size, rank, level=level):
            part = P.block_distributed_list(dlist, return_index=return_index)
        part = list(part)
        sizes.append(len(part))
        got += part
        if level != 1:
            break
    return got, sizes


def list_helper_partition(size: int, dlist: List[int], return_index: bool) -> bool:
    """
    pre: 1 <= size <= MAXSIZE
    pre: len(dlist) <= MAXLEN
    post: _
    """
    got, sizes = _list_union(size, dlist, return_index)
    want = list(enumerate(dlist)) if return_index else list(dlist)
    return got == want and max(sizes) - min(sizes) <= 1


def list_helper_partition_twin(size: int, dlist: List[int], return_index: bool) -> bool:
    """
    pre: 1 <= size <= MAXSIZE
    pre: len(dlist) <= MAXLEN
    post: not _
    """
    _list_union(size, dlist, return_index)
    return True


class _Arr(list):
    """duck-typed stand-in for a two-dimensional numpy array seen along its first axis: each list
    element stands for one row of 3 columns (shape, size, ndim, a[i], a[i:j])"""

    @property
    def shape(self):
        return (len(self), 3)

    @property
    def size(self):
        return 3 * len(self)

    @property
    def ndim(self):
        return 2

    def __getitem__(self, k):
        r = list.__getitem__(self, k)
        return _Arr(r) if isinstance(k, slice) else r


def _array_union(size, data, return_index, level=1):
    got = []
    sizes = []
    for rank in range(size):
        with _Cfg(size, rank, level=level):
            part = P.block_distributed_array(_Arr(data), return_index=return_index)
        part = list(part)
        sizes.append(len(part))
        got += part
        if level != 1:
            break
    return got, sizes


def array_helper_partition(size: int, data: List[int], return_index: bool) -> bool:
    """
    pre: 1 <= size <= MAXSIZE
    pre: len(data) <= MAXLEN
    post: _
    """
    got, sizes = _array_union(size, data, return_index)
    want = list(enumerate(data)) if return_index else list(data)
    return got == want and max(sizes) - min(sizes) <= 1


def array_helper_partition_twin(size: int, data: List[int], return_index: bool) -> bool:
    """
    pre: 1 <= size <= MAXSIZE
    pre: len(data) <= MAXLEN
    post: not _
    """
    _array_union(size, data, return_index)
    return True


def helpers_serial(data: List[int], return_index: bool) -> bool:
    """
    pre: len(data) <= MAXLEN
    post: _
    """
    g1, _ = _list_union(1, data, return_index, level=0)
    g2, _ = _array_union(1, data, return_index, level=0)
    want = list(enumerate(data)) if return_index else list(data)
    return g1 == want and g2 == want


def helpers_serial_twin(data: List[int], return_index: bool) -> bool:
    """
    pre: len(data) <= MAXLEN
    post: not _
    """
    _list_union(1, data, return_index, level=0)
    _array_union(1, data, return_index, level=0)
    return True
