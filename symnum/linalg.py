"""Contract stubs for eigen-decompositions of symbolic matrices.

`eigh(A)` returns fresh eigenvalues `w` and an orthogonal (unitary) `S` drawn from a
family that covers every matrix the real routine can return:

  real symmetric A :  S = (product of Givens rotations over all index pairs) * diag(sigma),
                      c_k^2+s_k^2 = 1, sigma_i^2 = 1   (all of O(N), N<=4)
  complex Hermitian:  additionally a phase per column, S = G * diag(u_i), |u_i| = 1
                      (N = 2: all of U(2) up to the ordering constraint)

with the assumptions  A S = S diag(w)  (optional, `eigen_equation`) and w ascending.
The inverse (S^T resp. S^dagger) is registered so that `inv(S)` returns it.
"""
import numpy
import z3

from . import core, npatch
from .core import ENGINE, Sym, SymR, mk, lift, F0, F1


def givens_orthogonal(n, tag="S", signs=True, block=None, planes=None):
    """symbolic orthogonal n x n matrix; `block`: list of index lists -> block diagonal;
    `planes`: restrict to rotations in the listed index planes [(i, j), ...]"""
    S = numpy.empty((n, n), dtype=object)
    S.fill(SymR(F0))
    for i in range(n):
        S[i, i] = SymR(F1)
    blocks = block if block is not None else [list(range(n))]
    k = 0
    for blk in blocks:
        for ii in range(len(blk)):
            for jj in range(ii + 1, len(blk)):
                i, j = blk[ii], blk[jj]
                if planes is not None and (i, j) not in planes:
                    continue
                c = core.real("%s.c%d" % (tag, k))
                s = core.real("%s.s%d" % (tag, k))
                ENGINE.assume(c.re * c.re + s.re * s.re == 1,
                              "eigh stub: S from products of Givens rotations (c^2+s^2=1) times column signs")
                G = numpy.empty((n, n), dtype=object)
                G.fill(SymR(F0))
                for d in range(n):
                    G[d, d] = SymR(F1)
                G[i, i] = c
                G[j, j] = c
                G[i, j] = -s
                G[j, i] = s
                S = numpy.dot(S, G)
                k += 1
    if signs:
        for i in range(n):
            sg = core.real("%s.sg%d" % (tag, i))
            ENGINE.assume(sg.re * sg.re == 1)
            S[:, i] = S[:, i] * sg
    return S


def make_eigh_handler(eigen_equation=True, ascending=True, block=None, tag="S", unitary=False,
                      signs=True):
    count = [0]

    def handler(A):
        n = A.shape[0]
        t = "%s%d" % (tag, count[0])
        count[0] += 1
        S = givens_orthogonal(n, t, signs=signs, block=block)
        if unitary:
            for i in range(n):
                u = core.cplx("%s.u%d" % (t, i))
                ENGINE.assume(u.re * u.re + u.im * u.im == 1,
                              "eigh stub (Hermitian input): column phases |u|=1")
                S[:, i] = S[:, i] * u
            S1 = numpy.conj(S.T)
        else:
            S1 = S.T.copy()
        w = numpy.empty(n, dtype=object)
        for i in range(n):
            w[i] = core.real("%s.w%d" % (t, i))
        if ascending:
            for i in range(n - 1):
                ENGINE.assume(w[i].re <= w[i + 1].re, "eigh stub: eigenvalues ascending")
        if eigen_equation:
            AS = numpy.dot(A, S)
            SW = S * w[None, :]
            for idx in numpy.ndindex(n, n):
                a, b = lift(AS[idx]), lift(SW[idx])
                ENGINE.assume(core.z(a.re) == core.z(b.re), "eigh stub: A S = S diag(w)")
                if not (core.isconc(a.im) and core.isconc(b.im) and a.im == b.im):
                    ENGINE.assume(core.z(a.im) == core.z(b.im))
        npatch.tag_inverse(S, S1)
        return w, S
    return handler


def use_eigh(**kw):
    npatch.EIGH_HANDLER[0] = make_eigh_handler(**kw)
