"""Contract stubs for eigen-decompositions of symbolic matrices.

`eigh(A)` returns fresh eigenvalues `w` and an orthogonal (unitary) `S` drawn from a
family that covers every matrix the real routine can return:

  real symmetric A :  S = (product of Givens rotations over all index pairs) * diag(sigma),
                      c_k^2+s_k^2 = 1, sigma_i^2 = 1   (all of O(N), N<=4)
  complex Hermitian:  additionally a phase per column, S = G * diag(u_i), |u_i| = 1
                      (N = 2: all of U(2) up to the ordering constraint)

with the assumptions  A S = S diag(w)  (optional, `eigen_equation`) and w ascending.
The inverse (S^T resp. S^dagger) is registered so that `inv(S)` returns it.
"""
import numpy
import z3

from . import core, npatch
from .core import ENGINE, Sym, SymR, mk, lift, F0, F1


def givens_orthogonal(n, tag="S", signs=True, block=None, planes=None):
    """symbolic orthogonal n x n matrix; `block`: list of index lists -> block diagonal;
    `planes`: restrict to rotations in the listed index planes [(i, j), ...]"""
    S = numpy.empty((n, n), dtype=object)
    S.fill(SymR(F0))
    for i in range(n):
        S[i, i] = SymR(F1)
    blocks = block if block is not None else [list(range(n))]
    k = 0
    for blk in blocks:
        for ii in range(len(blk)):
            for jj in range(ii + 1, len(blk)):
                i, j = blk[ii], blk[jj]
                if planes is not None and (i, j) not in planes:
                    continue
                c = core.real("%s.c%d" % (tag, k))
                s = core.real("%s.s%d" % (tag, k))
                ENGINE.assume(c.re * c.re + s.re * s.re == 1,
                              "eigh stub: S from products of Givens rotations (c^2+s^2=1) times column signs")
                ENGINE.square_rules[s.re.decl().name()] = 1 - c.re * c.re
                G = numpy.empty((n, n), dtype=object)
                G.fill(SymR(F0))
                for d in range(n):
                    G[d, d] = SymR(F1)
                G[i, i] = c
                G[j, j] = c
                G[i, j] = -s
                G[j, i] = s
                S = numpy.dot(S, G)
                k += 1
    if signs:
        for i in range(n):
            sg = core.real("%s.sg%d" % (tag, i))
            ENGINE.assume(sg.re * sg.re == 1)
            ENGINE.square_rules[sg.re.decl().name()] = z3.RealVal(1)
            S[:, i] = S[:, i] * sg
    return S


def _same_array(X, Y):
    if X.shape != Y.shape:
        return False
    for a, b in zip(X.flat, Y.flat):
        if not npatch._same(lift(a), lift(b)):
            return False
    return True


def make_eigh_handler(eigen_equation=True, ascending=True, block=None, tag="S", unitary=False,
                      signs=True):
    count = [0]
    registry = []      # (A, w, S, S1, B) with B = S1 A S computed the way the code does it

    def fresh_S(n, t, planes=None):
        S = givens_orthogonal(n, t, signs=signs, block=block, planes=planes)
        if unitary:
            # complex Hermitian input: S = diag(1, v) G with |v| = 1
            ENGINE.assumption_notes.append("eigh stub (Hermitian input): S = diag(1,v,..) G(c,s), |v|=1: all "
                                           "Hermitian matrices; eigenvector phase convention: first component real") \
                if not any("phase convention" in x for x in ENGINE.assumption_notes) else None
            for i in range(1, n):
                v = core.cplx("%s.v%d" % (t, i))
                ENGINE.assume(v.re * v.re + v.im * v.im == 1)
                ENGINE.square_rules[v.im.decl().name()] = 1 - v.re * v.re
                S[i, :] = S[i, :] * v
            S1 = numpy.conj(S.T)
        else:
            S1 = S.T.copy()
        npatch.tag_inverse(S, S1)
        return S, S1

    def make_block_S(n, t, groups):
        """orthogonal matrix that is an arbitrary rotation (times signs) inside each index group
        and zero between groups"""
        S = givens_orthogonal(n, t, signs=True, block=groups)
        if unitary:
            for i in range(n):
                u = core.cplx("%s.u%d" % (t, i))
                ENGINE.assume(u.re * u.re + u.im * u.im == 1)
                S[:, i] = S[:, i] * u
            S1 = numpy.conj(S.T)
        else:
            S1 = S.T.copy()
        npatch.tag_inverse(S, S1)
        npatch.tag_inverse(S1, S)
        return S, S1

    def register(A, w, S, S1):
        npatch.tag_inverse(S, S1)
        npatch.tag_inverse(S1, S)
        registry.append((A.copy(), w, S, S1, numpy.dot(S1, numpy.dot(A, S))))

    def handler(A):
        n = A.shape[0]
        # determinism: the same input gives the same decomposition
        for (A0, w0, S0, S10, B0) in registry:
            if _same_array(A, A0):
                S = S0.copy()
                npatch.tag_inverse(S, S10)
                return w0.copy(), S
        t = "%s%d" % (tag, count[0])
        count[0] += 1
        # input recognised as S1 A0 S of an earlier decomposition: same spectrum (similar
        # matrices), and the new eigenvectors commute with diag(w): (w_i - w_j) S'[i,j] = 0
        for k0, (A0, w0, S0, S10, B0) in enumerate(registry):
            if B0 is not None and (_same_array(A, B0) or
                                   (k0 in handler.diag_of and _same_array(A, handler.diag_of[k0]))):
                # case split (path manager) on the degeneracy pattern of neighbouring eigenvalues:
                # distinct eigenvalues force the new eigenvectors to be +-unit vectors; equal
                # ones allow any rotation inside the degenerate subspace
                blk_of = {}
                for bi, blk in enumerate(block if block is not None else [list(range(n))]):
                    for i in blk:
                        blk_of[i] = bi
                groups = [[0]]
                for i in range(1, n):
                    # exactly decoupled blocks are not mixed by the eigen-solver (stated assumption)
                    if blk_of[i - 1] == blk_of[i] and bool(w0[i - 1] == w0[i]):
                        groups[-1].append(i)
                    else:
                        groups.append([i])
                S, S1 = make_block_S(n, t, groups)
                if eigen_equation and k0 not in handler.diag_of:
                    # entailed lemma: the input is diag(w)
                    for idx in numpy.ndindex(n, n):
                        b = lift(B0[idx])
                        tgt = w0[idx[0]] if idx[0] == idx[1] else core.lift(0)
                        ENGINE.assume(core.z(b.re) == core.z(tgt.re))
                        if not (core.isconc(b.im) and b.im == 0):
                            ENGINE.assume(core.z(b.im) == 0)
                B = numpy.dot(S1, numpy.dot(A, S))
                registry.append((A, w0, S, S1, B))
                return w0.copy(), S
        S, S1 = fresh_S(n, t)
        w = numpy.empty(n, dtype=object)
        for i in range(n):
            w[i] = core.real("%s.w%d" % (t, i))
        if ascending:
            if block is None:
                for i in range(n - 1):
                    ENGINE.assume(w[i].re <= w[i + 1].re, "eigh stub: eigenvalues ascending")
            else:
                ENGINE.assumption_notes.append(
                    "eigh stub with block structure: ascending order only inside each block "
                    "(the blocks are assumed spectrally ordered as given)") \
                    if "eigh stub with block structure" not in " ".join(ENGINE.assumption_notes) else None
                for blk in block:
                    for a, b in zip(blk[:-1], blk[1:]):
                        ENGINE.assume(w[a].re <= w[b].re)
                for b1, b2 in zip(block[:-1], block[1:]):
                    ENGINE.assume(w[b1[-1]].re <= w[b2[0]].re)
        if eigen_equation:
            AS = numpy.dot(A, S)
            SW = S * w[None, :]
            for idx in numpy.ndindex(n, n):
                a, b = lift(AS[idx]), lift(SW[idx])
                ENGINE.assume(core.z(a.re) == core.z(b.re), "eigh stub: A S = S diag(w)")
                if not (core.isconc(a.im) and core.isconc(b.im) and a.im == b.im):
                    ENGINE.assume(core.z(a.im) == core.z(b.im))
        B = numpy.dot(S1, numpy.dot(A, S))
        registry.append((A.copy(), w, S, S1, B))
        return w.copy(), S
    handler.register = register
    handler.fresh_S = fresh_S
    handler.registry = registry
    handler.diag_of = {}
    return handler


def use_eigh(**kw):
    npatch.EIGH_HANDLER[0] = make_eigh_handler(**kw)
    return npatch.EIGH_HANDLER[0]


def spectral_symmetric(handler, n, block=None, tag="H", ascending=True, planes=None, w_values=None):
    """a real symmetric matrix GIVEN BY its eigen-decomposition: H = S diag(w) S^T with S
    any orthogonal matrix of the handler's family and w ascending.  By the spectral
    theorem every real symmetric matrix (with that block structure) is of this form, so
    quantifying over (S, w) quantifies over all H; the decomposition is registered with
    the eigh stub, which returns exactly (w, S) for H (no eigen-equation assumption needed)."""
    S, S1 = handler.fresh_S(n, tag + ".S", planes=planes)
    w = numpy.empty(n, dtype=object)
    for i in range(n):
        w[i] = core.real("%s.w%d" % (tag, i)) if w_values is None else lift(w_values[i])
    blocks = block if block is not None else [list(range(n))]
    if ascending and w_values is None:
        order = [i for blk in blocks for i in blk]
        for a, b in zip(order[:-1], order[1:]):
            ENGINE.assume(w[a].re <= w[b].re, "spectral parametrisation: eigenvalues ascending")
    H = numpy.dot(S * w[None, :], S1)
    # make H exactly Hermitian term-wise (it is, mathematically: S diag(w) S^+)
    for i in range(n):
        H[i, i] = lift(H[i, i]).real
        for j in range(i + 1, n):
            H[j, i] = lift(H[i, j]).conjugate()
    handler.register(H, w, S, S1)
    return H, w, S

