"""Run-time replacement of a handful of numpy / scipy module attributes so that
quantarhei's own allocations produce object arrays of exact symbolic numbers.

Only *module attributes* are swapped (``numpy.zeros`` is looked up at call time in
every quantarhei module), nothing in /repo is touched.  Outside the
``symbolic_numpy()`` context the process is an ordinary numpy process.
"""
import contextlib
from fractions import Fraction

import numpy
import scipy
import scipy.linalg
import scipy.interpolate
import z3

from . import core
from .core import ENGINE, Sym, SymR, SymBool, lift, mk, F0, F1, z

import numpy.linalg
import numpy.fft

_REAL = {
    "zeros": numpy.zeros, "ones": numpy.ones, "empty": numpy.empty,
    "zeros_like": numpy.zeros_like, "eye": numpy.eye, "identity": numpy.identity,
    "array": numpy.array, "isclose": numpy.isclose, "allclose": numpy.allclose,
    "max": numpy.max, "min": numpy.min, "amax": numpy.amax, "amin": numpy.amin,
    "argmin": numpy.argmin, "argmax": numpy.argmax, "real": numpy.real, "imag": numpy.imag, "linspace": numpy.linspace,
    "isreal": numpy.isreal, "eigh": numpy.linalg.eigh, "inv": numpy.linalg.inv,
    "scipy_inv": scipy.linalg.inv, "fft": numpy.fft.fft, "ifft": numpy.fft.ifft,
    "hfft": numpy.fft.hfft,
    "UnivariateSpline": scipy.interpolate.UnivariateSpline,
}


def _is_inexact_dtype(dtype):
    if dtype is None:
        return True
    try:
        dt = numpy.dtype(dtype)
    except TypeError:
        return False
    return dt.kind in "fc"


def _obj_full(shape, val):
    a = numpy.empty(shape, dtype=object)
    a.fill(val)
    return a


MODEL_REAL_DTYPE = [True]


def _realify(v):
    """what numpy's casting to a real floating dtype keeps of a value: its real part"""
    if isinstance(v, Sym):
        return v if v.is_real else SymR(v.re)
    if isinstance(v, complex):
        return v.real
    if isinstance(v, numpy.ndarray):
        if v.dtype == object:
            out = numpy.empty(v.shape, dtype=object)
            for idx in numpy.ndindex(*v.shape):
                out[idx] = _realify(v[idx])
            return out
        if v.dtype.kind == "c":
            return _REAL["real"](v)
        return v
    if isinstance(v, (list, tuple)):
        return _realify(numpy.asarray(v, dtype=object if core.has_sym(v) else None))
    return v


class RealObjArray(numpy.ndarray):
    """object array standing for an array that the code created with an explicit REAL floating dtype:
    storing into it keeps only the real part (numpy's cast, which merely warns).  Results of arithmetic
    are ordinary object arrays; views and copies stay real."""

    def __setitem__(self, key, value):
        numpy.ndarray.__setitem__(self, key, _realify(value))

    def __array_ufunc__(self, ufunc, method, *inputs, out=None, **kwargs):
        base = [x.view(numpy.ndarray) if isinstance(x, RealObjArray) else x for x in inputs]
        if out is not None:
            targets = out
            bout = tuple(x.view(numpy.ndarray) if isinstance(x, RealObjArray) else x for x in out)
            res = getattr(ufunc, method)(*base, out=bout, **kwargs)
            for t in targets:
                if isinstance(t, RealObjArray):
                    tb = t.view(numpy.ndarray)
                    for idx in numpy.ndindex(*tb.shape):
                        tb[idx] = _realify(tb[idx])
            return targets[0] if len(targets) == 1 else targets
        return getattr(ufunc, method)(*base, **kwargs)

    def __array_wrap__(self, arr, context=None, return_scalar=False):
        return numpy.asarray(arr).view(numpy.ndarray)

    def __array_function__(self, func, types, args, kwargs):
        # numpy functions (dot, tensordot, sum, ...) see and return ordinary object arrays
        def strip(x):
            if isinstance(x, RealObjArray):
                return x.view(numpy.ndarray)
            if isinstance(x, (list, tuple)):
                return type(x)(strip(y) for y in x)
            if isinstance(x, dict):
                return {k: strip(v) for k, v in x.items()}
            return x
        return func(*strip(args), **strip(kwargs))


def _real_obj_full(shape, val, dtype):
    a = _obj_full(shape, val)
    if MODEL_REAL_DTYPE[0] and dtype is not None:
        try:
            if numpy.dtype(dtype).kind == "f":
                return a.view(RealObjArray)
        except TypeError:
            pass
    return a


def p_zeros(shape, dtype=None, order="C", **kw):
    if _is_inexact_dtype(dtype):
        return _real_obj_full(shape, SymR(F0), dtype)
    return _REAL["zeros"](shape, dtype=dtype, order=order, **kw)


def p_ones(shape, dtype=None, order="C", **kw):
    if _is_inexact_dtype(dtype):
        return _real_obj_full(shape, SymR(F1), dtype)
    return _REAL["ones"](shape, dtype=dtype, order=order, **kw)


def p_empty(shape, dtype=None, order="C", **kw):
    if _is_inexact_dtype(dtype):
        return _real_obj_full(shape, SymR(F0), dtype)
    return _REAL["empty"](shape, dtype=dtype, order=order, **kw)


def p_zeros_like(a, dtype=None, **kw):
    a = numpy.asarray(a)
    dt = dtype if dtype is not None else a.dtype
    if dt == object or _is_inexact_dtype(dt):
        return _obj_full(a.shape, SymR(F0))
    return _REAL["zeros_like"](a, dtype=dtype, **kw)


def p_eye(N, M=None, k=0, dtype=None, **kw):
    if _is_inexact_dtype(dtype):
        M = N if M is None else M
        a = _obj_full((N, M), SymR(F0))
        for i in range(N):
            if 0 <= i + k < M:
                a[i, i + k] = SymR(F1)
        return a
    return _REAL["eye"](N, M, k, dtype=dtype, **kw)


def p_identity(n, dtype=None, **kw):
    return p_eye(n, dtype=dtype)


def p_array(obj, dtype=None, *a, **kw):
    if dtype is not None and dtype is not object and _is_inexact_dtype(dtype) \
            and core.has_sym(obj):
        r = _REAL["array"](obj, dtype=object, *a, **kw)
        if dtype is not None and numpy.dtype(dtype).kind == "f":
            # real dtype requested: keep (object) – complex parts are the code's problem
            pass
        return r
    return _REAL["array"](obj, dtype, *a, **kw)


def _all_concrete(a):
    for v in a.flat:
        if isinstance(v, Sym) and not v.is_concrete:
            return False
    return True


def to_float(a):
    """object array of concrete Sym -> float/complex ndarray"""
    a = numpy.asarray(a)
    if a.dtype != object:
        return a
    cpx = any(isinstance(v, Sym) and not v.is_real for v in a.flat)
    out = _REAL["zeros"](a.shape, dtype=complex if cpx else float)
    for idx in numpy.ndindex(*a.shape):
        v = a[idx]
        out[idx] = complex(v) if cpx else float(v)
    return out


# ---- comparisons / closeness --------------------------------------------
def valid(cond):
    """decide a z3 condition under assumptions + path condition:
    True if valid, False if its negation is valid, else fork."""
    return ENGINE.decide(cond)


def p_isclose(a, b, rtol=1e-05, atol=1e-08, equal_nan=False):
    if not (core.has_sym(a) or core.has_sym(b)):
        return _REAL["isclose"](a, b, rtol=rtol, atol=atol, equal_nan=equal_nan)
    aa = numpy.asarray(a, dtype=object)
    bb = numpy.asarray(b, dtype=object)
    aa, bb = numpy.broadcast_arrays(aa, bb)
    out = _REAL["zeros"](aa.shape, dtype=bool)
    for idx in numpy.ndindex(*aa.shape):
        out[idx] = _close(lift(aa[idx]), lift(bb[idx]), rtol, atol)
    if out.ndim == 0:
        return bool(out)
    return out


def _close(x, y, rtol, atol):
    if x.is_concrete and y.is_concrete:
        return abs(complex(x) - complex(y)) <= atol + rtol * abs(complex(y))
    # symbolic: model "close" as exact equality (reals, no rounding)
    r = (x == y)
    return bool(r)


def p_allclose(a, b, rtol=1e-05, atol=1e-08, equal_nan=False):
    if not (core.has_sym(a) or core.has_sym(b)):
        return _REAL["allclose"](a, b, rtol=rtol, atol=atol, equal_nan=equal_nan)
    r = p_isclose(a, b, rtol=rtol, atol=atol)
    return bool(numpy.all(r))


def _sym_max2(x, y):
    x, y = lift(x), lift(y)
    if x.is_concrete and y.is_concrete:
        return x if x.re >= y.re else y
    return SymR(z3.If(z(x.re) >= z(y.re), z(x.re), z(y.re)))


def _sym_min2(x, y):
    x, y = lift(x), lift(y)
    if x.is_concrete and y.is_concrete:
        return x if x.re <= y.re else y
    return SymR(z3.If(z(x.re) <= z(y.re), z(x.re), z(y.re)))


def _reduce_obj(fn, a, axis=None):
    a = numpy.asarray(a)
    if axis is None:
        it = iter(a.flat)
        r = next(it)
        for v in it:
            r = fn(r, v)
        return r
    return numpy.apply_along_axis(lambda v: _reduce_obj(fn, v), axis, a)


def p_max(a, axis=None, *args, **kw):
    if core.has_sym(a):
        return _reduce_obj(_sym_max2, numpy.asarray(a, dtype=object), axis)
    return _REAL["max"](a, axis, *args, **kw)


def p_min(a, axis=None, *args, **kw):
    if core.has_sym(a):
        return _reduce_obj(_sym_min2, numpy.asarray(a, dtype=object), axis)
    return _REAL["min"](a, axis, *args, **kw)


def p_real(a):
    arr = numpy.asarray(a)
    if arr.dtype == object:
        out = numpy.empty(arr.shape, dtype=object)
        for idx in numpy.ndindex(*arr.shape):
            out[idx] = lift(arr[idx]).real
        return out if out.ndim else out[()]
    return _REAL["real"](a)


def p_imag(a):
    arr = numpy.asarray(a)
    if arr.dtype == object:
        out = numpy.empty(arr.shape, dtype=object)
        for idx in numpy.ndindex(*arr.shape):
            out[idx] = lift(arr[idx]).imag
        return out if out.ndim else out[()]
    return _REAL["imag"](a)


def p_argmin(a, axis=None, *args, **kw):
    if core.has_sym(a) and axis is None:
        flat = list(numpy.asarray(a, dtype=object).flat)
        best = 0
        for i in range(1, len(flat)):
            # numpy returns the FIRST minimum: a later element wins only if strictly smaller
            if bool(lift(flat[i]) < lift(flat[best])):
                best = i
        return best
    return _REAL["argmin"](a, axis, *args, **kw)


def p_argmax(a, axis=None, *args, **kw):
    if core.has_sym(a) and axis is None:
        flat = list(numpy.asarray(a, dtype=object).flat)
        best = 0
        for i in range(1, len(flat)):
            if bool(lift(flat[i]) > lift(flat[best])):
                best = i
        return best
    return _REAL["argmax"](a, axis, *args, **kw)


def p_linspace(start, stop, num=50, endpoint=True, retstep=False, dtype=None, axis=0):
    if core.has_sym([start, stop]):
        start, stop = lift(start), lift(stop)
        num = int(num)
        div = (num - 1) if endpoint else num
        step = (stop - start) / div if div > 0 else lift(0)
        a = numpy.empty(num, dtype=object)
        for i in range(num):
            a[i] = start + i * step
        if retstep:
            return a, step
        return a
    return _REAL["linspace"](start, stop, num, endpoint, retstep, dtype, axis)


def p_isreal(x):
    if core.has_sym(x):
        xa = numpy.asarray(x, dtype=object)
        out = _REAL["zeros"](xa.shape, dtype=bool)
        for idx in numpy.ndindex(*xa.shape):
            out[idx] = lift(xa[idx]).is_real
        return bool(out) if out.ndim == 0 else out
    return _REAL["isreal"](x)


# ---- linear algebra stubs -----------------------------------------------
class OrthoTag:
    """registry of arrays known to be orthogonal / unitary: id -> inverse array"""
    inv = {}


def tag_inverse(S, S1):
    OrthoTag.inv[id(S)] = (S, S1)


def _lookup_inverse(S):
    ent = OrthoTag.inv.get(id(S))
    if ent is not None and ent[0] is S:
        return ent[1]
    # value-identical array (e.g. a copy)?
    for (T, T1) in OrthoTag.inv.values():
        if T.shape == S.shape and all(
                (lift(a) is lift(b)) or _same(lift(a), lift(b))
                for a, b in zip(T.flat, S.flat)):
            return T1
    return None


def _same(a, b):
    def eqc(x, y):
        if isinstance(x, Fraction) and isinstance(y, Fraction):
            return x == y
        if isinstance(x, Fraction) or isinstance(y, Fraction):
            return False
        return x.eq(y)
    return eqc(a.re, b.re) and eqc(a.im, b.im)


EIGH_HANDLER = [None]   # harness-provided: f(A) -> (w, S) ; must tag inverse


def p_eigh(A, *args, **kw):
    A = numpy.asarray(A)
    if A.dtype != object:
        return _REAL["eigh"](A, *args, **kw)
    if _all_concrete(A) and EIGH_HANDLER[0] is None:
        with unpatched():
            w, S = _REAL["eigh"](to_float(A))
        return w, S
    if EIGH_HANDLER[0] is None:
        raise core.SymbolicConcretization("eigh of symbolic matrix without a stub handler")
    return EIGH_HANDLER[0](A)


def p_inv(S, *args, **kw):
    S = numpy.asarray(S)
    if S.dtype != object:
        return _REAL["inv"](S, *args, **kw)
    S1 = _lookup_inverse(S)
    if S1 is not None:
        return S1.copy()
    if _all_concrete(S):
        with unpatched():
            return core.to_obj(_REAL["inv"](to_float(S)))
    n = S.shape[0]
    if n == 2:
        # exact adjugate formula; obligation det != 0 recorded by the division
        a, b, c, d = S[0, 0], S[0, 1], S[1, 0], S[1, 1]
        det = a * d - b * c
        X = numpy.empty((2, 2), dtype=object)
        X[0, 0], X[0, 1], X[1, 0], X[1, 1] = d / det, -b / det, -c / det, a / det
        return X
    raise core.SymbolicConcretization("inv of untagged symbolic matrix")


PATCHES = None
PI_FLOAT = float(numpy.pi)


def sym_pi():
    """numpy.pi as a symbolic constant (3.1415926 < pi < 3.1415927) so that grid
    phases 2*pi*k/M stay recognisable as exact roots of unity"""
    key = ("alg", "pi")
    if key not in ENGINE.uf:
        v = z3.Real("pi")
        ENGINE.uf[key] = v
        ENGINE.assume(z3.And(v > core.RV(Fraction(31415926, 10 ** 7)),
                             v < core.RV(Fraction(31415927, 10 ** 7))),
                      "numpy.pi is the symbolic constant pi in (3.1415926, 3.1415927)")
    return SymR(ENGINE.uf[key])



def _build_patches():
    import numpy.linalg
    import numpy.fft
    from . import fftstub, splinestub
    return [
        (numpy, "zeros", p_zeros), (numpy, "ones", p_ones), (numpy, "empty", p_empty),
        (numpy, "zeros_like", p_zeros_like), (numpy, "eye", p_eye),
        (numpy, "identity", p_identity), (numpy, "array", p_array),
        (numpy, "isclose", p_isclose), (numpy, "allclose", p_allclose),
        (numpy, "max", p_max), (numpy, "amax", p_max),
        (numpy, "min", p_min), (numpy, "amin", p_min),
        (numpy, "argmin", p_argmin), (numpy, "argmax", p_argmax),
        (numpy, "real", p_real), (numpy, "imag", p_imag),
        (numpy, "linspace", p_linspace), (numpy, "isreal", p_isreal),
        (numpy.linalg, "eigh", p_eigh), (numpy.linalg, "inv", p_inv),
        (scipy.linalg, "inv", p_inv),
        (numpy.fft, "fft", fftstub.p_fft), (numpy.fft, "ifft", fftstub.p_ifft),
        (numpy.fft, "hfft", fftstub.p_hfft),
        (scipy.interpolate, "UnivariateSpline", splinestub.UnivariateSplineStub),
    ]


@contextlib.contextmanager
def unpatched():
    """temporarily restore the real numpy inside a symbolic_numpy() context
    (used to build concrete quantarhei objects with benign numbers)"""
    if not ENGINE.active:
        yield
        return
    cur = [(mod, name, getattr(mod, name)) for mod, name, fn in PATCHES]
    cur.append((numpy, "pi", numpy.pi))
    for mod, name, fn in PATCHES:
        key = "scipy_inv" if (mod is scipy.linalg and name == "inv") else name
        setattr(mod, name, _REAL[key])
    numpy.pi = PI_FLOAT
    ENGINE.active = False
    try:
        yield
    finally:
        for mod, name, fn in cur:
            setattr(mod, name, fn)
        ENGINE.active = True


@contextlib.contextmanager
def symbolic_numpy():
    global PATCHES
    if PATCHES is None:
        PATCHES = _build_patches()
    saved = []
    for mod, name, fn in PATCHES:
        saved.append((mod, name, getattr(mod, name)))
        setattr(mod, name, fn)
    ENGINE.active = True
    saved.append((numpy, "pi", numpy.pi))
    numpy.pi = sym_pi()
    from . import basis_hooks
    basis_hooks.install()
    try:
        yield
    finally:
        basis_hooks.uninstall()
        for mod, name, real in saved:
            setattr(mod, name, real)
        ENGINE.active = False


def real(name):
    """the unpatched numpy function"""
    return _REAL[name]
