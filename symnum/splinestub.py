"""Stub for scipy.interpolate.UnivariateSpline(t, y, s=0).antiderivative()(t).

The running integral A[i] of the interpolating spline is an *uninterpreted
function of the input terms*: A[0] = 0 (scipy's antiderivative starts at the first
knot) and congruence (structurally identical integrand terms on identical knots give
the same values).  Nothing else is assumed, so a claim proved with this stub holds
for every value the quadrature could return.
"""
import numpy
import z3

from . import core
from .core import ENGINE, SymR, lift, F0


def _key(arr):
    out = []
    for v in numpy.asarray(arr).flat:
        v = lift(v)
        for c in (v.re, v.im):
            if not core.isconc(c) and ENGINE.canonical_uf_args:
                c = core.canon_arg(c)       # polynomially equal integrands -> the same key
                ENGINE.uf.setdefault("spline_keepalive", []).append(c)
            out.append(("q", c) if core.isconc(c) else ("z", c.get_id()))
    return tuple(out)


class _Anti:
    def __init__(self, t, y):
        self.t = t
        self.y = y

    def __call__(self, tm):
        from .npatch import real, to_float, _all_concrete
        y = numpy.asarray(self.y)
        t = numpy.asarray(self.t)
        if (y.dtype != object or _all_concrete(y)) and (t.dtype != object or _all_concrete(t)):
            from .npatch import unpatched
            with unpatched():
                return real("UnivariateSpline")(to_float(t), to_float(y), s=0).antiderivative()(
                    to_float(numpy.asarray(tm)))
        n = len(y)
        kt = _key(self.t)
        assert _key(tm) == kt, "spline stub: evaluation points must be the knots"
        cache = ENGINE.uf.setdefault("spline", {})
        ky = (kt, _key(y))
        if ky not in cache:
            vals = [SymR(F0)]
            for i in range(1, n):
                vals.append(SymR(ENGINE.fresh("Int%d" % i)))
            cache[ky] = vals
            # keep the integrand terms alive: z3 hash-conses structurally equal terms to the same
            # node (same id) only while the first one still exists
            ENGINE.uf.setdefault("spline_keepalive", []).append((numpy.array(y, dtype=object), self.t))
            if "spline" not in ENGINE.assumption_notes:
                ENGINE.assumption_notes.append(
                    "UnivariateSpline(...).antiderivative()(t): uninterpreted, A[0]=0, congruent")
        out = numpy.empty(n, dtype=object)
        out[:] = cache[ky]
        return out


class UnivariateSplineStub:
    def __init__(self, x, y, w=None, bbox=[None] * 2, k=3, s=None, ext=0, check_finite=False):
        self.x = x
        self.y = y
        self._concrete = None
        ya = numpy.asarray(y)
        xa = numpy.asarray(x)
        from .npatch import real, to_float, _all_concrete
        if (ya.dtype != object or _all_concrete(ya)) and (xa.dtype != object or _all_concrete(xa)):
            from .npatch import unpatched
            with unpatched():
                self._concrete = real("UnivariateSpline")(to_float(xa), to_float(ya), w=w, bbox=bbox,
                                                          k=k, s=s, ext=ext)

    def antiderivative(self, n=1):
        if self._concrete is not None:
            from .npatch import unpatched, to_float
            with unpatched():
                anti = self._concrete.antiderivative(n)

            def call(tm):
                with unpatched():
                    return anti(to_float(numpy.asarray(tm)))
            return call
        return _Anti(self.x, self.y)

    def integral(self, a, b):
        """definite integral of the interpolant: for symbolic data an uninterpreted value, congruent in
        (knots, data, limits) - nothing else is assumed about the quadrature"""
        from .npatch import unpatched, to_float
        if self._concrete is not None:
            with unpatched():
                return self._concrete.integral(float(to_float(numpy.asarray(a))), float(to_float(numpy.asarray(b))))
        cache = ENGINE.uf.setdefault("spline_integral", {})
        ky = (_key(self.x), _key(self.y), _key([a, b]))
        if ky not in cache:
            cache[ky] = SymR(ENGINE.fresh("SplineIntegral"))
            ENGINE.uf.setdefault("spline_keepalive", []).append((numpy.array(self.y, dtype=object), self.x))
            if "spline integral" not in ENGINE.assumption_notes:
                ENGINE.assumption_notes.append(
                    "UnivariateSpline(...).integral(a, b) of symbolic data: uninterpreted, congruent")
        return cache[ky]

    def __call__(self, *a, **kw):
        if self._concrete is not None:
            from .npatch import unpatched
            with unpatched():
                return self._concrete(*a, **kw)
        raise core.SymbolicConcretization("spline evaluation of symbolic data")
