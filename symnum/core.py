"""SYMNUM core: a symbolic number domain that rides inside numpy object arrays.

Every quantity is a pair (re, im); each component is either an exact
``Fraction`` (concrete) or a z3 ``Real`` term (symbolic).  Python floats met in
the code under analysis are injected exactly (``Fraction(float)``), so the terms
left behind are the code's real-arithmetic semantics with its own constants.

The engine state (assumptions produced by stubs, side obligations produced by
divisions / square roots, the branch manager) lives in ``ENGINE``.
"""
import math
import numbers
import itertools
from fractions import Fraction

import numpy
import z3

F0 = Fraction(0)
F1 = Fraction(1)
FACT = {}     # factored forms of z3 terms, see _fact()
_VARS = {}


class SymbolicConcretization(TypeError):
    """Raised when the code under analysis needs a concrete value of a symbol."""


class PathLimit(Exception):
    pass


# --------------------------------------------------------------------------
# engine state
# --------------------------------------------------------------------------
class Engine:
    def __init__(self):
        self.reset()

    def reset(self):
        self.assumptions = []      # z3 BoolRef: contracts of stubs, preconditions
        self.assumption_notes = []  # human readable
        self.pinned = []           # preconditions on inputs: never filtered out
        self.obligations = []      # (kind, z3 BoolRef that must hold, note)
        self.path_condition = []   # decisions taken on this path
        self.decisions = []        # list of bools actually taken on this path
        self.prefix = []           # decisions to replay
        self.pending = []          # prefixes still to be explored
        self.nfresh = itertools.count()
        self.uf = {}
        self.uf_apps = {}          # name -> list of (args, result)
        self.solver_time = 0.0
        self.nqueries = 0
        self.concrete_transcendentals = False
        self.square_rules = {}           # variable name -> z3 term p with the assumed equation v*v == p
        self.canonical_uf_args = False   # arguments of Exp/Cos/Sin/... brought to sum-of-monomials normal form
        self.fork_log = []
        self.active = False
        self.exp_underflow = False
        self.input_hints = {}      # name -> (lo, hi): ranges for counterexample guessing
        self.exp_monotone = False
        self.fact_ids = set()
        self.in_fact_stub = 0
        FACT.clear()

    def fresh(self, name="v"):
        return z3.Real("%s!%d" % (name, next(self.nfresh)))

    def assume(self, cond, note=None, fact=None):
        """fact=True marks an instantiated true fact about a real function (exp, cos,
        tanh, algebraic constants); such axioms are satisfiable by construction and may be
        left out of the vacuity twin when the solver cannot digest them"""
        if fact is None:
            fact = self.in_fact_stub > 0
        if isinstance(cond, SymBool):
            cond = cond.z
        if cond is True:
            return
        if cond is False:
            cond = z3.BoolVal(False)
        self.assumptions.append(cond)
        if fact:
            self.fact_ids.add(cond.get_id())
        if note and note not in self.assumption_notes:
            self.assumption_notes.append(note)

    def oblige(self, kind, cond, note=""):
        self.obligations.append((kind, cond, note, list(self.path_condition)))

    def func(self, name, arity=1):
        key = (name, arity)
        if key not in self.uf:
            self.uf[key] = z3.Function(name, *([z3.RealSort()] * (arity + 1)))
        return self.uf[key]

    # ---- branching ------------------------------------------------------
    def decide(self, cond):
        """Return a concrete bool for z3 condition `cond` on the current path."""
        k = len(self.decisions)
        if k < len(self.prefix):
            d = self.prefix[k]
        else:
            can_t = self._feasible(cond)
            can_f = self._feasible(z3.Not(cond))
            if can_t and can_f:
                d = True
                self.pending.append(self.decisions + [False])
            elif can_t:
                d = True
            elif can_f:
                d = False
            else:
                # path condition itself infeasible: keep going arbitrarily,
                # the path's queries are vacuous and are flagged by the twin.
                d = True
        self.decisions.append(d)
        self.path_condition.append(cond if d else z3.Not(cond))
        return d

    def _feasible(self, cond):
        s = z3.Solver()
        s.set("timeout", 20000)
        for a in self.assumptions:
            s.add(a)
        for a in self.path_condition:
            s.add(a)
        s.add(cond)
        import time
        t0 = time.time()
        r = str(s.check())
        self.solver_time += time.time() - t0
        self.nqueries += 1
        return r != "unsat"


ENGINE = Engine()


# --------------------------------------------------------------------------
# component arithmetic (Fraction | z3 ArithRef)
# --------------------------------------------------------------------------
_RV_CACHE = {}


def RV(q):
    r = _RV_CACHE.get(q)
    if r is None:
        r = z3.RealVal(str(q))
        if len(_RV_CACHE) < 100000:
            _RV_CACHE[q] = r
    return r


def isconc(a):
    return isinstance(a, Fraction)


def z(a):
    return RV(a) if isinstance(a, Fraction) else a


# Factored form.  Every symbolic component term t may carry a factorisation
#   t == coeff * prod(var_i ** pow_i) * core
# (FACT[id(t)] = (t, coeff, vars, core); core None means 1).  Scalar factors such as
# dt, 2*pi/(N*dt), unit conversion constants then cancel *syntactically*
# (m*A + m*B -> m*(A+B), (m1*A)*(m2*B) -> (m1*m2)*(A*B), (m*A)/m2 -> (m/m2)*A),
# which keeps the queries handed to the solver free of rational-function noise.
# A cancellation var/var -> 1 is justified by the recorded obligation `den != 0`.
def _fact(t):
    """(coeff, vars(tuple of (name,pow)), core or None) of a z3 term"""
    ent = FACT.get(t.get_id())
    if ent is not None and ent[0].eq(t):
        return ent[1], ent[2], ent[3]
    if z3.is_const(t) and t.decl().kind() == z3.Z3_OP_UNINTERPRETED:
        nm = t.decl().name()
        _VARS[nm] = t
        return F1, ((nm, 1),), None
    return F1, (), t


def _vmul(v1, v2, sign=1):
    d = dict(v1)
    for n, p in v2:
        d[n] = d.get(n, 0) + sign * p
    return tuple(sorted((n, p) for n, p in d.items() if p != 0))


def _build(coeff, vars_, core):
    """canonical z3 term (or Fraction) for coeff*vars*core, registered in FACT"""
    if coeff == 0:
        return F0
    num = None
    den = None
    for n, p in vars_:
        v = _VARS[n]
        for _ in range(abs(p)):
            if p > 0:
                num = v if num is None else num * v
            else:
                den = v if den is None else den * v
    t = core
    if num is not None:
        t = num if t is None else num * t
    if t is None:
        if den is None:
            return coeff
        t = RV(coeff) / den
        FACT[t.get_id()] = (t, coeff, vars_, None)
        return t
    if den is not None:
        t = t / den
    if coeff != 1:
        t = (-t) if coeff == -1 else RV(coeff) * t
    if vars_ or coeff != 1:
        FACT[t.get_id()] = (t, coeff, vars_, core)
    return t


def c_add(a, b, sign=1):
    ca, cb = isinstance(a, Fraction), isinstance(b, Fraction)
    if ca and cb:
        return a + sign * b
    if ca and a == 0:
        return b if sign == 1 else c_neg(b)
    if cb and b == 0:
        return a
    if ca or cb:
        za, zb = z(a), z(b)
        return za + zb if sign == 1 else za - zb
    if a.eq(b):
        return c_mul(Fraction(2), a) if sign == 1 else F0
    ka, va, ra = _fact(a)
    kb, vb, rb = _fact(b)
    if va == vb and va:
        # common monomial factor: m*(ka*ra + kb*rb)
        kb = sign * kb
        if ra is None and rb is None:
            return _build(ka + kb, va, None)
        ta = RV(ka) if ra is None else (ra if ka == 1 else (-ra if ka == -1 else RV(ka) * ra))
        tb = RV(abs(kb)) if rb is None else (rb if abs(kb) == 1 else RV(abs(kb)) * rb)
        if ra is not None and rb is not None and ra.eq(rb):
            return _build(ka + kb, va, ra)
        core = ta + tb if kb > 0 else ta - tb
        return _build(F1, va, core)
    return a + b if sign == 1 else a - b


def c_neg(a):
    if isinstance(a, Fraction):
        return -a
    k, v, r = _fact(a)
    if v or k != 1:
        return _build(-k, v, r)
    return -a


def c_sub(a, b):
    return c_add(a, b, -1)


def c_mul(a, b):
    ca, cb = isinstance(a, Fraction), isinstance(b, Fraction)
    if ca and cb:
        return a * b
    if ca:
        a, b, ca, cb = b, a, cb, ca
    if cb:
        if b == 0:
            return F0
        if b == 1:
            return a
        k, v, r = _fact(a)
        return _build(k * b, v, r)
    ka, va, ra = _fact(a)
    kb, vb, rb = _fact(b)
    if ra is None:
        core = rb
    elif rb is None:
        core = ra
    else:
        core = ra * rb
    return _build(ka * kb, _vmul(va, vb), core)


def c_div(a, b):
    cb = isinstance(b, Fraction)
    if cb:
        if b == 0:
            # the code divides by an exact zero on this path: a failed side obligation
            # (floats give inf/nan here); the value itself is arbitrary
            ENGINE.oblige("div", z3.BoolVal(False), "denominator is literally zero")
            return ENGINE.fresh("divzero")
        return c_mul(a, 1 / b)
    # symbolic denominator: side obligation b != 0
    ENGINE.oblige("div", b != 0, "denominator != 0")
    if isinstance(a, Fraction):
        if a == 0:
            return F0
        ka, va, ra = a, (), None
    else:
        ka, va, ra = _fact(a)
    kb, vb, rb = _fact(b)
    if rb is None:
        return _build(ka / kb, _vmul(va, vb, -1), ra)
    # non-monomial denominator: keep numerator's factor outside
    num = RV(F1) if ra is None else ra
    return _build(ka / kb, _vmul(va, vb, -1), num / rb)


# --------------------------------------------------------------------------
# booleans
# --------------------------------------------------------------------------
class SymBool:
    __slots__ = ("z",)

    def __init__(self, zexpr):
        self.z = zexpr

    def __bool__(self):
        return ENGINE.decide(self.z)

    def __and__(self, o):
        return SymBool(z3.And(self.z, _zb(o)))

    __rand__ = __and__

    def __or__(self, o):
        return SymBool(z3.Or(self.z, _zb(o)))

    __ror__ = __or__

    def __invert__(self):
        return SymBool(z3.Not(self.z))

    def __repr__(self):
        return "SymBool(%s)" % self.z


def _zb(o):
    if isinstance(o, SymBool):
        return o.z
    return z3.BoolVal(bool(o))


# --------------------------------------------------------------------------
# numbers
# --------------------------------------------------------------------------
def _frac(x):
    """exact Fraction of a concrete python/numpy real scalar"""
    if isinstance(x, Fraction):
        return x
    if isinstance(x, (bool, numpy.bool_)):
        return Fraction(int(x))
    if isinstance(x, (int, numpy.integer)):
        return Fraction(int(x))
    if isinstance(x, (float, numpy.floating)):
        return snap(Fraction(float(x)))
    raise TypeError("not a real scalar: %r" % (type(x),))


def snap(f):
    """A float literal within one unit in the last place of a rational with denominator
    <= 10000 stands for that rational (0.1 -> 1/10, 4.0/30.0 -> 2/15): the encoding is the
    real-arithmetic meaning of the source formula, not of its rounded constants."""
    if f.denominator <= 10000:
        return f
    g = f.limit_denominator(10000)
    if g != 0 and abs(g - f) <= abs(g) * Fraction(1, 2 ** 51):
        return g
    return f


def mk(re, im=F0):
    if isinstance(im, Fraction) and im == 0:
        return SymR(re)
    return Sym(re, im)


def lift(x):
    """Convert anything scalar into a Sym; return None if not a scalar."""
    if isinstance(x, Sym):
        return x
    if isinstance(x, (complex, numpy.complexfloating)):
        return mk(snap(Fraction(float(x.real))), snap(Fraction(float(x.imag))))
    if isinstance(x, (int, float, Fraction, numpy.integer, numpy.floating,
                      bool, numpy.bool_)):
        return SymR(_frac(x))
    if isinstance(x, z3.ArithRef):
        return SymR(x)
    if isinstance(x, numpy.ndarray) and x.ndim == 0:
        return lift(x.item())
    return None


class Sym:
    """complex symbolic number"""
    __slots__ = ("re", "im")

    def __init__(self, re, im=F0):
        self.re = re
        self.im = im

    # -- classification
    @property
    def is_concrete(self):
        return isinstance(self.re, Fraction) and isinstance(self.im, Fraction)

    @property
    def is_real(self):
        return isinstance(self.im, Fraction) and self.im == 0

    # -- numpy protocol attributes
    @property
    def real(self):
        return SymR(self.re)

    @property
    def imag(self):
        return SymR(self.im)

    def conjugate(self):
        return mk(self.re, c_neg(self.im))

    conj = conjugate

    # -- arithmetic
    def _coerce(self, o):
        if isinstance(o, Sym):
            return o
        if isinstance(o, numpy.ndarray):
            if o.ndim == 0:
                return lift(o.item())
            return None
        return lift(o)

    def __add__(self, o):
        o = self._coerce(o)
        if o is None:
            return NotImplemented
        return mk(c_add(self.re, o.re), c_add(self.im, o.im))

    __radd__ = __add__

    def __sub__(self, o):
        o = self._coerce(o)
        if o is None:
            return NotImplemented
        return mk(c_sub(self.re, o.re), c_sub(self.im, o.im))

    def __rsub__(self, o):
        o = self._coerce(o)
        if o is None:
            return NotImplemented
        return mk(c_sub(o.re, self.re), c_sub(o.im, self.im))

    def __mul__(self, o):
        o = self._coerce(o)
        if o is None:
            return NotImplemented
        a, b, c, d = self.re, self.im, o.re, o.im
        bz = isinstance(b, Fraction) and b == 0
        dz = isinstance(d, Fraction) and d == 0
        if bz and dz:
            return SymR(c_mul(a, c))
        if bz:
            return mk(c_mul(a, c), c_mul(a, d))
        if dz:
            return mk(c_mul(a, c), c_mul(b, c))
        return mk(c_sub(c_mul(a, c), c_mul(b, d)),
                  c_add(c_mul(a, d), c_mul(b, c)))

    __rmul__ = __mul__

    def __truediv__(self, o):
        o = self._coerce(o)
        if o is None:
            return NotImplemented
        if o.is_real:
            return mk(c_div(self.re, o.re), c_div(self.im, o.re))
        den = c_add(c_mul(o.re, o.re), c_mul(o.im, o.im))
        num = self * o.conjugate()
        return mk(c_div(num.re, den), c_div(num.im, den))

    def __rtruediv__(self, o):
        o = self._coerce(o)
        if o is None:
            return NotImplemented
        return o.__truediv__(self)

    def __neg__(self):
        return mk(c_neg(self.re), c_neg(self.im))

    def __pos__(self):
        return self

    def __pow__(self, n):
        if isinstance(n, Sym) and n.is_concrete and n.is_real:
            n = n.re
        if isinstance(n, (float, numpy.floating)) and float(n) == int(n):
            n = int(n)
        if isinstance(n, Fraction) and n.denominator == 1:
            n = int(n)
        if isinstance(n, (float, Fraction)) and Fraction(n) == Fraction(1, 2):
            return self.sqrt()
        if isinstance(n, (int, numpy.integer)):
            n = int(n)
            if n < 0:
                return lift(1) / (self ** (-n))
            r = lift(1)
            b = self
            while n:
                if n & 1:
                    r = r * b
                b = b * b if n > 1 else b
                n >>= 1
            return r
        raise SymbolicConcretization("symbolic power %r" % (n,))

    def __rpow__(self, base):
        # base ** self  (only e.g. constant ** concrete)
        if self.is_concrete and self.is_real and self.re.denominator == 1:
            return lift(base) ** int(self.re)
        raise SymbolicConcretization("power with symbolic exponent")

    # -- comparisons (reals only)
    def _cmp(self, o, op):
        o = self._coerce(o)
        if o is None:
            return NotImplemented
        if not (self.is_real and o.is_real):
            raise TypeError("ordering of complex symbolic numbers")
        a, b = self.re, o.re
        if isinstance(a, Fraction) and isinstance(b, Fraction):
            return op(a, b)
        return SymBool(op(z(a), z(b)))

    def __lt__(self, o):
        return self._cmp(o, lambda a, b: a < b)

    def __le__(self, o):
        return self._cmp(o, lambda a, b: a <= b)

    def __gt__(self, o):
        return self._cmp(o, lambda a, b: a > b)

    def __ge__(self, o):
        return self._cmp(o, lambda a, b: a >= b)

    def __eq__(self, o):
        o = self._coerce(o)
        if o is None:
            return NotImplemented
        if self.is_concrete and o.is_concrete:
            return self.re == o.re and self.im == o.im
        return SymBool(z3.And(z(self.re) == z(o.re), z(self.im) == z(o.im)))

    def __ne__(self, o):
        r = self.__eq__(o)
        if r is NotImplemented:
            return r
        if isinstance(r, SymBool):
            return ~r
        return not r

    def __hash__(self):
        if self.is_concrete:
            return hash((self.re, self.im))
        return id(self)

    def __bool__(self):
        r = (self != 0)
        return bool(r)

    # -- conversions
    def __float__(self):
        if self.is_concrete and self.is_real:
            return float(self.re)
        raise SymbolicConcretization("float() of symbolic value %r" % (self,))

    def __int__(self):
        if self.is_concrete and self.is_real:
            return int(self.re)
        raise SymbolicConcretization("int() of symbolic value")

    def __index__(self):
        if self.is_concrete and self.is_real and self.re.denominator == 1:
            return int(self.re)
        raise SymbolicConcretization("index() of symbolic value")

    def __complex__(self):
        if self.is_concrete:
            return complex(float(self.re), float(self.im))
        raise SymbolicConcretization("complex() of symbolic value")

    def __abs__(self):
        if self.is_real:
            a = self.re
            if isinstance(a, Fraction):
                return SymR(abs(a))
            return SymR(z3.If(a >= 0, a, -a))
        n2 = SymR(c_add(c_mul(self.re, self.re), c_mul(self.im, self.im)))
        return n2.sqrt()

    def __repr__(self):
        if self.is_concrete:
            if self.is_real:
                return "S(%s)" % (self.re,)
            return "S(%s%+sj)" % (self.re, self.im)
        if self.is_real:
            return "S<%s>" % (str(self.re)[:80],)
        return "S<%s ; %s>" % (str(self.re)[:60], str(self.im)[:60])

    # -- methods numpy's object loops look up
    def sqrt(self):
        return sym_sqrt(self)

    def exp(self):
        return sym_exp(self)

    def tanh(self):
        return sym_tanh(self)

    def cos(self):
        return sym_cos(self)

    def sin(self):
        return sym_sin(self)

    def tan(self):
        return sym_sin(self) / sym_cos(self)

    def log(self):
        return sym_log(self)

    # derived forms (so that a rewritten formula in the code under test still executes symbolically)
    def expm1(self):
        return sym_exp(self) - 1

    def log1p(self):
        return sym_log(self + 1)

    def sinh(self):
        return (sym_exp(self) - sym_exp(-self)) / 2

    def cosh(self):
        return (sym_exp(self) + sym_exp(-self)) / 2

    def exp2(self):
        return sym_exp(self * sym_log(SymR(Fraction(2))))

    def square(self):
        return self * self

    def reciprocal(self):
        return 1 / self

    def floor(self):
        if self.is_concrete and self.is_real:
            return SymR(Fraction(math.floor(self.re)))
        raise SymbolicConcretization("floor of symbolic")

    def rint(self):
        if self.is_concrete and self.is_real:
            return SymR(Fraction(round(self.re)))
        raise SymbolicConcretization("rint of symbolic")

    def isnan(self):
        return False

    def isfinite(self):
        return True

    def copy(self):
        return self

    def item(self):
        return self

    def __deepcopy__(self, memo):
        return self

    def __copy__(self):
        return self

    def __reduce__(self):
        raise SymbolicConcretization("pickling a symbolic number")


class SymR(Sym):
    """real symbolic number"""
    __slots__ = ()

    def __init__(self, re, im=F0):
        self.re = re
        self.im = F0

    def __round__(self, n=None):
        if self.is_concrete:
            return round(self.re, n)
        raise SymbolicConcretization("round of symbolic")


numbers.Complex.register(Sym)
numbers.Real.register(SymR)


# --------------------------------------------------------------------------
# transcendental / algebraic stubs
# --------------------------------------------------------------------------
def canon_arg(zx):
    """optional canonical (sum-of-monomials) form of a function argument: polynomially equal arguments
    become the same term, so the uninterpreted function is applied once (pure term rewriting)"""
    if ENGINE.canonical_uf_args and not isinstance(zx, Fraction):
        return z3.simplify(zx, som=True, sort_sums=True)
    return zx


def _uf_app(name, x, axioms):
    """application of an uninterpreted function with per-application axioms and
    pairwise instantiated relational axioms"""
    f = ENGINE.func(name)
    zx = canon_arg(z(x))
    apps = ENGINE.uf_apps.setdefault(name, [])
    for (ax, ay) in apps:
        if ax.eq(zx):
            return ay
    y = f(zx)
    apps.append((zx, y))
    axioms(zx, y, apps[:-1])
    return y


def _facts(fn):
    import functools

    @functools.wraps(fn)
    def w(*a, **kw):
        ENGINE.in_fact_stub += 1
        try:
            return fn(*a, **kw)
        finally:
            ENGINE.in_fact_stub -= 1
    return w


@_facts
def sym_exp(s):
    s = lift(s)
    if s.is_real:
        x = s.re
        if isinstance(x, Fraction):
            if x == 0:
                return SymR(F1)
            if ENGINE.concrete_transcendentals:
                return SymR(Fraction(math.exp(float(x))))

        if ENGINE.exp_underflow:
            ENGINE.oblige("exp-overflow", z(x) <= RV(Fraction(70978, 100)), "exp argument <= 709.78")

        def ax(zx, y, prev):
            if ENGINE.exp_underflow:
                ENGINE.assume(y >= 0, "Exp(x) >= 0; IEEE: Exp(x)==0 <=> x < -745.14")
                ENGINE.assume((y == 0) == (zx < RV(Fraction(-74514, 100))))
            else:
                ENGINE.assume(y > 0, "Exp(x) > 0")
            ENGINE.assume((zx == 0) == (y == 1), "Exp(x)==1 <=> x==0")
            ENGINE.assume((zx > 0) == (y > 1), "Exp monotone wrt 0")
            if ENGINE.exp_monotone:
                for (px, py) in prev:
                    ENGINE.assume(z3.Implies(px < zx, py <= y), "Exp monotone (instantiated pairwise)")
                    ENGINE.assume(z3.Implies(zx < px, y <= py))
                    if not ENGINE.exp_underflow:
                        ENGINE.assume(z3.Implies(px < zx, py < y))
            if not ENGINE.exp_underflow:
                # functional equation Exp(a+b) = Exp(a) Exp(b), instantiated wherever one
                # occurring argument is syntactically the sum of two others
                def is0(a, b, c, sb=-1, sc=-1):
                    """a + sb*b + sc*c == 0 syntactically (factored arithmetic, then z3.simplify)"""
                    d = c_add(c_add(a, b, sb), c, sc)
                    if isinstance(d, Fraction):
                        return d == 0
                    k, v, core = _fact(d)
                    r = z3.simplify(core if core is not None else d)
                    return z3.is_rational_value(r) and r.numerator_as_long() == 0
                allp = prev + [(zx, y)]
                for i, (ax_, ay) in enumerate(allp):
                    for (bx, by) in allp[i:]:
                        if is0(zx, ax_, bx):
                            ENGINE.assume(y == ay * by, "Exp(a+b)=Exp(a)Exp(b) (instantiated)")
                for (cx_, cy) in prev:
                    for (ax_, ay) in prev:
                        if is0(cx_, zx, ax_):
                            ENGINE.assume(cy == y * ay)
                    if is0(cx_, zx, zx):
                        ENGINE.assume(cy == y * y)
                    if is0(cx_, zx, F0, +1):
                        ENGINE.assume(cy * y == 1, "Exp(-a)Exp(a)=1 (instantiated)")
        return SymR(_uf_app("Exp", x, ax))
    # complex argument
    mag = sym_exp(SymR(s.re))
    c = sym_cos(SymR(s.im))
    si = sym_sin(SymR(s.im))
    return mag * mk(c.re, si.re)


@_facts
def _trig_pair(x):
    """(cos x, sin x) as components"""
    if isinstance(x, Fraction):
        if x == 0:
            return F1, F0
        if ENGINE.concrete_transcendentals:
            return Fraction(math.cos(float(x))), Fraction(math.sin(float(x)))
    zx = canon_arg(z(x))
    apps = ENGINE.uf_apps.setdefault("CosSin", [])
    for (ax, ay) in apps:
        if ax.eq(zx):
            return ay
    # parity used constructively: an argument that is the negative of an earlier one reuses its pair
    # (cos(-x) = cos x, sin(-x) = -sin x), so exp(i x) exp(-i x) reduces with the square rule below
    nzx = z3.simplify(-zx, som=True, sort_sums=True)
    for (ax, ay) in apps:
        if z3.simplify(ax, som=True, sort_sums=True).eq(nzx):
            return ay[0], c_neg(ay[1])
    fc, fs = ENGINE.func("Cos"), ENGINE.func("Sin")
    c, s = fc(zx), fs(zx)
    ENGINE.square_rules["@%d" % s.get_id()] = 1 - c * c
    ENGINE.uf.setdefault("trig_keepalive", []).append((c, s))
    ENGINE.assume(c * c + s * s == 1, "Cos^2+Sin^2=1")
    ENGINE.assume(fc(-zx) == c, "Cos even / Sin odd (instantiated)")
    ENGINE.assume(fs(-zx) == -s)
    apps.append((zx, (c, s)))
    return c, s


def sym_cos(s):
    s = lift(s)
    if not s.is_real:
        raise SymbolicConcretization("cos of complex")
    return SymR(_trig_pair(s.re)[0])


def sym_sin(s):
    s = lift(s)
    if not s.is_real:
        raise SymbolicConcretization("sin of complex")
    return SymR(_trig_pair(s.re)[1])


@_facts
def sym_tanh(s):
    s = lift(s)
    if not s.is_real:
        raise SymbolicConcretization("tanh of complex")
    x = s.re
    if isinstance(x, Fraction):
        if x == 0:
            return SymR(F0)
        if ENGINE.concrete_transcendentals:
            return SymR(Fraction(math.tanh(float(x))))

    def ax(zx, y, prev):
        ENGINE.assume(z3.And(y > -1, y < 1), "-1 < Tanh < 1")
        ENGINE.assume((zx > 0) == (y > 0), "sign Tanh x = sign x")
        ENGINE.assume((zx == 0) == (y == 0))
        f = ENGINE.func("Tanh")
        ENGINE.assume(f(-zx) == -y, "Tanh odd (instantiated)")
        # Exp(-2x)(1+Tanh x) = 1 - Tanh x
        e = sym_exp(SymR(-2 * zx)).re
        ENGINE.assume(z(e) * (1 + y) == 1 - y, "Exp(-2x)(1+Tanh x)=1-Tanh x")
    return SymR(_uf_app("Tanh", x, ax))


@_facts
def sym_log(s):
    s = lift(s)
    if not s.is_real:
        raise SymbolicConcretization("log of complex")
    x = s.re
    if isinstance(x, Fraction):
        if x == 1:
            return SymR(F0)
        if ENGINE.concrete_transcendentals:
            return SymR(Fraction(math.log(float(x))))
    ENGINE.oblige("log", z(x) > 0, "log argument > 0")

    def ax(zx, y, prev):
        ENGINE.assume((zx > 1) == (y > 0), "sign Log")
    return SymR(_uf_app("Log", x, ax))


def sym_sqrt(s):
    s = lift(s)
    if s.is_real:
        x = s.re
        if isinstance(x, Fraction):
            if x >= 0:
                n, d = x.numerator, x.denominator
                rn, rd = math.isqrt(n), math.isqrt(d)
                if rn * rn == n and rd * rd == d:
                    return SymR(Fraction(rn, rd))
                if ENGINE.concrete_transcendentals:
                    return SymR(Fraction(math.sqrt(float(x))))
            elif ENGINE.concrete_transcendentals:
                return mk(F0, Fraction(math.sqrt(float(-x))))
        zx = z(x)
        apps = ENGINE.uf_apps.setdefault("Sqrt", [])
        for (ax_, ay) in apps:
            if ax_.eq(zx):
                return SymR(ay)
        r = ENGINE.fresh("sqrt")
        ENGINE.oblige("sqrt", zx >= 0, "sqrt argument >= 0")
        ENGINE.assume(z3.And(r >= 0, r * r == zx), "sqrt(x)=r: r>=0, r*r=x")
        ENGINE.square_rules[r.decl().name()] = zx
        apps.append((zx, r))
        return SymR(r)
    raise SymbolicConcretization("sqrt of complex symbolic")


# --------------------------------------------------------------------------
# creating symbols and arrays
# --------------------------------------------------------------------------
def real(name):
    return SymR(z3.Real(name))

def cplx(name):
    return Sym(z3.Real(name + ".re"), z3.Real(name + ".im"))


def const(x):
    return lift(x)


def zeros(shape):
    a = numpy.empty(shape, dtype=object)
    a.fill(SymR(F0))
    return a


def real_array(name, shape):
    a = numpy.empty(shape, dtype=object)
    for idx in numpy.ndindex(*a.shape):
        a[idx] = real(name + "_" + "_".join(map(str, idx)))
    return a


def cplx_array(name, shape):
    a = numpy.empty(shape, dtype=object)
    for idx in numpy.ndindex(*a.shape):
        a[idx] = cplx(name + "_" + "_".join(map(str, idx)))
    return a


def real_symmetric(name, n, zero_diag=False):
    a = numpy.empty((n, n), dtype=object)
    for i in range(n):
        for j in range(i, n):
            if i == j and zero_diag:
                v = SymR(F0)
            else:
                v = real("%s_%d_%d" % (name, i, j))
            a[i, j] = v
            a[j, i] = v
    return a


def hermitian(name, n):
    a = numpy.empty((n, n), dtype=object)
    for i in range(n):
        a[i, i] = real("%s_%d_%d" % (name, i, i))
        for j in range(i + 1, n):
            v = cplx("%s_%d_%d" % (name, i, j))
            a[i, j] = v
            a[j, i] = v.conjugate()
    return a


def to_obj(arr):
    """convert a concrete numeric numpy array to an object array of exact Sym"""
    arr = numpy.asarray(arr)
    if arr.dtype == object:
        out = numpy.empty(arr.shape, dtype=object)
        for idx in numpy.ndindex(*arr.shape):
            out[idx] = lift(arr[idx])
        return out
    out = numpy.empty(arr.shape, dtype=object)
    for idx in numpy.ndindex(*arr.shape):
        out[idx] = lift(arr[idx])
    return out


def is_symbolic_array(a):
    return isinstance(a, numpy.ndarray) and a.dtype == object


def has_sym(x):
    if isinstance(x, Sym):
        return True
    if isinstance(x, numpy.ndarray):
        return x.dtype == object
    if isinstance(x, (list, tuple)):
        return any(has_sym(y) for y in x)
    return False


# --------------------------------------------------------------------------
# numeric evaluation of symbolic terms under an assignment (for guessing grid
# indices and for validating the encoding against the real code)
# --------------------------------------------------------------------------
def evalf(x, env=None, default=1.0):
    """float/complex value of Sym `x` with variables replaced by env[name] (floats);
    variables not in env get `default`"""
    x = lift(x)
    env = env or {}

    def ev(c):
        if isinstance(c, Fraction):
            return float(c)
        syms = {}
        stack = [c]
        seen = set()
        while stack:
            e = stack.pop()
            if e.get_id() in seen:
                continue
            seen.add(e.get_id())
            if z3.is_const(e) and e.decl().kind() == z3.Z3_OP_UNINTERPRETED:
                syms[e.decl().name()] = e
            else:
                stack.extend(e.children())
        subs = []
        for n, e in syms.items():
            v = env.get(n, default)
            subs.append((e, RV(Fraction(v).limit_denominator(10 ** 12))))
        r = z3.simplify(z3.substitute(c, *subs)) if subs else z3.simplify(c)
        if z3.is_rational_value(r):
            return r.numerator_as_long() / r.denominator_as_long()
        if z3.is_algebraic_value(r):
            a = r.approx(20)
            return a.numerator_as_long() / a.denominator_as_long()
        raise SymbolicConcretization("evalf: cannot evaluate %s" % (str(r)[:80],))
    re, im = ev(x.re), ev(x.im)
    return complex(re, im) if im != 0 else re
