"""Polynomial identities modulo the square rules the engine has assumed.

Terms over the reals built from +, -, *, integer powers and rational constants are
expanded into a dictionary {monomial: coefficient}; everything else (applications of
uninterpreted functions, divisions by non-constants, ite ...) is an opaque atom.  Every
assumed equation of the form  v*v == p  (rotation parameters s*s == 1 - c*c, signs
sg*sg == 1, unit phases, square roots r*r == x, sqrt(2)^2 == 2 ...) is a rewrite rule
v^2 -> p; these rules have pairwise different leading variables, so exhaustive rewriting
gives a unique normal form modulo the ideal they generate.  A difference whose normal
form is the zero polynomial is therefore zero under the engine's assumptions: the
equality holds for every value of the variables (sound; incomplete for identities that
need other assumptions - those go to the SMT solver).
"""
from fractions import Fraction

import z3

LIMIT = 60000       # monomials


class TooBig(Exception):
    pass


def _mono_mul(m1, m2):
    if not m1:
        return m2
    if not m2:
        return m1
    d = dict(m1)
    for v, p in m2:
        d[v] = d.get(v, 0) + p
    return tuple(sorted(d.items()))


def p_add(a, b, sign=1):
    out = dict(a)
    for m, c in b.items():
        v = out.get(m, 0) + sign * c
        if v == 0:
            out.pop(m, None)
        else:
            out[m] = v
    return out


def p_mul(a, b):
    if len(a) * len(b) > 4 * LIMIT:
        raise TooBig()
    out = {}
    for m1, c1 in a.items():
        for m2, c2 in b.items():
            m = _mono_mul(m1, m2)
            v = out.get(m, 0) + c1 * c2
            if v == 0:
                out.pop(m, None)
            else:
                out[m] = v
    if len(out) > LIMIT:
        raise TooBig()
    return out


def p_const(c):
    return {(): c} if c != 0 else {}


class Converter:
    def __init__(self):
        self.atoms = {}      # key -> z3 term (kept alive)
        self.cache = {}
        self.rules = {}      # filled by equal_modulo before the goal is converted

    def atom(self, t):
        key = "@%d" % t.get_id() if not (z3.is_const(t) and t.decl().kind() == z3.Z3_OP_UNINTERPRETED) \
            else t.decl().name()
        self.atoms[key] = t
        return {((key, 1),): Fraction(1)}

    def poly(self, t):
        i = t.get_id()
        if i in self.cache:
            return self.cache[i]
        r = self._poly(t)
        self.cache[i] = r
        return r

    def _poly(self, t):
        if z3.is_rational_value(t):
            return p_const(Fraction(t.numerator_as_long(), t.denominator_as_long()))
        if z3.is_int_value(t):
            return p_const(Fraction(t.as_long()))
        if not z3.is_app(t):
            return self.atom(t)
        k = t.decl().kind()
        ch = t.children()
        if k == z3.Z3_OP_ADD:
            acc = {}
            for c in ch:
                acc = p_add(acc, self.poly(c))
            return acc
        if k == z3.Z3_OP_SUB:
            acc = self.poly(ch[0])
            for c in ch[1:]:
                acc = p_add(acc, self.poly(c), -1)
            return acc
        if k == z3.Z3_OP_UMINUS:
            return p_add({}, self.poly(ch[0]), -1)
        if k == z3.Z3_OP_MUL:
            acc = p_const(Fraction(1))
            for c in ch:
                acc = p_mul(acc, self.poly(c))
            return acc
        if k == z3.Z3_OP_POWER and z3.is_rational_value(ch[1]) and ch[1].denominator_as_long() == 1 \
                and 0 <= ch[1].numerator_as_long() <= 16:
            base = self.poly(ch[0])
            acc = p_const(Fraction(1))
            for _ in range(ch[1].numerator_as_long()):
                acc = p_mul(acc, base)
            return acc
        if k == z3.Z3_OP_DIV and z3.is_rational_value(ch[1]) and ch[1].numerator_as_long() != 0:
            d = Fraction(ch[1].numerator_as_long(), ch[1].denominator_as_long())
            return {m: c / d for m, c in self.poly(ch[0]).items()}
        if k == z3.Z3_OP_TO_REAL:
            return self.poly(ch[0])
        if k == z3.Z3_OP_DIV and self.rules:
            # a denominator that is a non-zero constant modulo the rules (e.g. the determinant of a rotation)
            den = reduce_squares(self.poly(ch[1]), self.rules)
            if len(den) == 1 and () in den:
                return {m: c / den[()] for m, c in self.poly(ch[0]).items()}
        return self.atom(t)


def reduce_squares(p, rules):
    """rewrite v^k (k>=2) with v^2 -> rules[v] until no rule applies"""
    if not rules:
        return p
    work = list(p.items())
    out = {}
    steps = 0
    while work:
        m, c = work.pop()
        hit = None
        for idx, (v, pw) in enumerate(m):
            if pw >= 2 and v in rules:
                hit = idx
                break
        if hit is None:
            val = out.get(m, 0) + c
            if val == 0:
                out.pop(m, None)
            else:
                out[m] = val
            continue
        v, pw = m[hit]
        rest = m[:hit] + (((v, pw - 2),) if pw > 2 else ()) + m[hit + 1:]
        for m2, c2 in rules[v].items():
            work.append((_mono_mul(rest, m2), c * c2))
        steps += 1
        if steps > 40 * LIMIT or len(work) + len(out) > 4 * LIMIT:
            raise TooBig()
    return out


def equal_modulo(zx, zy, square_rules):
    """True if zx - zy reduces to the zero polynomial; False if it does not or is too big"""
    conv = Converter()
    try:
        rules = {}
        for name, rhs in square_rules.items():
            rules[name] = conv.poly(rhs)
        # a rule must not mention its own variable on the right-hand side
        for name, rp in rules.items():
            for m in rp:
                if any(v == name for v, _ in m):
                    return False
        conv.rules = rules
        conv.cache = {}
        d = p_add(conv.poly(zx), conv.poly(zy), -1)
        d = reduce_squares(d, rules)
        return not d
    except TooBig:
        return False
    except RecursionError:
        return False
