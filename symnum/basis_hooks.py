"""Checkpoint simplification for basis-change contexts (symbolic mode only).

When an object is transformed into a deeper basis its outer-basis terms are
remembered; when `eigenbasis_of.__exit__` has transformed it back, the engine tries to
PROVE (solver, small query per element) that the result equals the remembered terms
and, only if every element is proved, replaces the bulky round-trip terms by the
remembered ones.  This is replacement of terms by provably equal terms: sound, exact,
and it keeps nested contexts from compounding polynomial degree.  Nothing is assumed:
if the proof fails the round-trip terms stay.
"""
import numpy
import z3

from . import core, solver
from .core import ENGINE, lift

_saved = {}
STATS = dict(lemmas=0, proved=0, failed=0)
LEMMA_TIMEOUT_MS = 4000


def _prove_equal(A, B):
    A = numpy.asarray(A, dtype=object)
    B = numpy.asarray(B, dtype=object)
    if A.shape != B.shape:
        return False
    for a, b in zip(A.flat, B.flat):
        a, b = lift(a), lift(b)
        for x, y in ((a.re, b.re), (a.im, b.im)):
            if core.isconc(x) and core.isconc(y):
                if x != y:
                    return False
                continue
            zx, zy = core.z(x), core.z(y)
            if zx.eq(zy):
                continue
            STATS["lemmas"] += 1
            r, m, dt, s = solver.check([zx != zy], timeout_ms=LEMMA_TIMEOUT_MS)
            if r != "unsat":
                STATS["failed"] += 1
                return False
            STATS["proved"] += 1
    return True


def _simplify_diagonalised(operator):
    """if the operator's data are now S^-1 A S of a registered eigen-decomposition (A, w, S),
    prove that this equals diag(w) and replace the bulky terms by diag(w)"""
    from . import npatch, linalg
    h = npatch.EIGH_HANDLER[0]
    cur = getattr(operator, "_data", None)
    if h is None or not hasattr(h, "registry") or not isinstance(cur, numpy.ndarray) \
            or cur.dtype != object or cur.ndim != 2:
        return
    for k, (A0, w0, S0, S10, B0) in enumerate(h.registry):
        if B0 is not None and B0.shape == cur.shape and linalg._same_array(cur, B0):
            n = cur.shape[0]
            D = core.zeros((n, n))
            for i in range(n):
                D[i, i] = w0[i]
            known = h.diag_of.get(k)
            if known is not None or _prove_equal(cur, D):
                operator._data = D if known is None else known.copy()
                h.diag_of[k] = operator._data.copy()
            return


def install():
    from quantarhei.core import managers
    M = managers.Manager
    E = managers.eigenbasis_of
    if "ttcb" in _saved:
        return
    _saved["ttcb"] = M.transform_to_current_basis
    _saved["exit"] = E.__exit__

    def ttcb(self, operator):
        if not ENGINE.active or operator.is_basis_protected:
            return _saved["ttcb"](self, operator)
        ob = operator.get_current_basis()
        cb = self.get_current_basis()
        if ob != cb and isinstance(getattr(operator, "_data", None), numpy.ndarray) \
                and operator._data.dtype == object:
            snaps = operator.__dict__.setdefault("_verif_snap", {})
            snaps[ob] = operator._data.copy()
        r = _saved["ttcb"](self, operator)
        _simplify_diagonalised(operator)
        return r

    def exit_(self, ext_ty, exc_val, tb):
        if not ENGINE.active:
            return _saved["exit"](self, ext_ty, exc_val, tb)
        bb = self.manager.basis_stack[-1]
        ops = list(self.manager.basis_registered.get(bb, []))
        r = _saved["exit"](self, ext_ty, exc_val, tb)
        nb = self.manager.basis_stack[-1]
        for op in ops:
            snaps = op.__dict__.get("_verif_snap")
            if not snaps or nb not in snaps or op.is_basis_protected:
                continue
            cand = snaps.pop(nb)
            cur = getattr(op, "_data", None)
            if isinstance(cur, numpy.ndarray) and cur.dtype == object and cur.shape == cand.shape:
                if _prove_equal(cur, cand):
                    op._data = cand
        return r

    M.transform_to_current_basis = ttcb
    E.__exit__ = exit_


def uninstall():
    if "ttcb" not in _saved:
        return
    from quantarhei.core import managers
    managers.Manager.transform_to_current_basis = _saved.pop("ttcb")
    managers.eigenbasis_of.__exit__ = _saved.pop("exit")
