"""Discharging queries: validity of a goal under the engine's assumptions and the
current path condition, decided by z3 (cvc5 optionally as a second opinion)."""
import time
from fractions import Fraction

import z3

from .core import ENGINE, Sym, SymBool, lift, z, isconc


def symbols_of(expr, acc=None, seen=None):
    """free constants / function symbols (decl names) of a z3 expr"""
    if acc is None:
        acc = set()
    if seen is None:
        seen = set()
    stack = [expr]
    while stack:
        e = stack.pop()
        i = e.get_id()
        if i in seen:
            continue
        seen.add(i)
        if z3.is_app(e):
            d = e.decl()
            if d.kind() == z3.Z3_OP_UNINTERPRETED:
                acc.add(d.name())
            stack.extend(e.children())
    return acc


def cone_of_influence(goal_exprs, assumptions):
    """assumptions transitively sharing symbols with the goal"""
    syms = set()
    for g in goal_exprs:
        symbols_of(g, syms)
    asyms = [symbols_of(a) for a in assumptions]
    used = [False] * len(assumptions)
    changed = True
    while changed:
        changed = False
        for i, s in enumerate(asyms):
            if not used[i] and (s & syms or not s):
                used[i] = True
                if not s <= syms:
                    syms |= s
                    changed = True
    return [a for a, u in zip(assumptions, used) if u]


def _val(v):
    """z3 model value -> Fraction (rational) or float (algebraic)"""
    if z3.is_rational_value(v):
        return Fraction(v.numerator_as_long(), v.denominator_as_long())
    if z3.is_algebraic_value(v):
        a = v.approx(30)
        return Fraction(a.numerator_as_long(), a.denominator_as_long())
    try:
        return Fraction(str(v))
    except Exception:
        return None


def model_dict(m):
    out = {}
    for d in m.decls():
        if d.arity() == 0:
            val = _val(m[d])
            if val is not None:
                out[d.name()] = val
    return out


def check(goal_neg_parts, timeout_ms=20000, use_coi=True, extra=()):
    """satisfiability of  assumptions ∧ path ∧ extra ∧ goal_neg_parts.
    returns (verdict str, model or None, seconds)"""
    base = list(ENGINE.path_condition) + list(extra) + list(goal_neg_parts)
    assum = list(ENGINE.assumptions)
    if use_coi:
        pinned_ids = {a.get_id() for a in ENGINE.pinned}
        rest = [a for a in assum if a.get_id() not in pinned_ids]
        assum = list(ENGINE.pinned) + cone_of_influence(base, rest)
    s = z3.Solver()
    for a in assum:
        s.add(a)
    for a in base:
        s.add(a)
    t0 = time.time()
    r, m = _portfolio(s, int(timeout_ms))
    dt = time.time() - t0
    ENGINE.solver_time += dt
    ENGINE.nqueries += 1
    return r, m, dt, s


PORTFOLIO_STATS = {}


def _guess_model(s, timeout_ms):
    import random
    hints = ENGINE.input_hints
    if not hints:
        return None
    names = set()
    for a in s.assertions():
        symbols_of(a, names)
    has_pi = "pi" in names
    names = sorted(n for n in names if n in hints)
    if not names:
        return None
    rng = random.Random(len(names) * 7919 + ENGINE.nqueries)
    for attempt, frac in enumerate((1.0, 1.0, 0.7, 0.5)):
        s.push()
        try:
            for n in names:
                if rng.random() <= frac:
                    lo, hi = hints[n]
                    val = Fraction(int((lo + (hi - lo) * rng.random()) * 64), 64)
                    s.add(z3.Real(n) == z3.RealVal(str(val)))
            if has_pi:
                # the symbolic constant pi is only known to lie in (3.1415926, 3.1415927): any value
                # inside is a model of the abstraction (the replay on floats decides)
                s.add(z3.Real("pi") == z3.RealVal("3.14159265"))
            s.set("timeout", max(300, min(5000 if attempt == 0 else 1500, timeout_ms // 4)))
            if str(s.check()) == "sat":
                return s.model()
        except z3.Z3Exception:
            pass
        finally:
            s.pop()
    return None


def _portfolio(s, timeout_ms):
    """z3 is sensitive to term order on nonlinear queries: try (1) the default solver on a
    short slice of the budget, (2) simplify/solve-eqs/nlsat pipeline on up to half of it, (3) the same assertions
    re-parsed in a fresh context, (4) the default solver on the rest.  Only sat/unsat are
    definite; `unknown` from every engine is reported as unknown."""
    budget = timeout_ms
    t_start = time.time()

    def left():
        return max(200, int(budget - (time.time() - t_start) * 1000))
    # 1 default, short
    s.set("timeout", max(500, min(1500, timeout_ms // 4)))
    r = str(s.check())
    if r in ("sat", "unsat"):
        PORTFOLIO_STATS["default"] = PORTFOLIO_STATS.get("default", 0) + 1
        return r, (s.model() if r == "sat" else None)
    # 2 tactic pipeline
    try:
        t = z3.Then("simplify", "solve-eqs", "purify-arith", "qfnra-nlsat")
        s2 = t.solver()
        # nlsat decides most nonlinear obligations; it gets half of the budget so that a query it
        # needs a few seconds for is not lost to machine load
        s2.set("timeout", max(500, min(left(), timeout_ms // 2)))
        s2.add(s.assertions())
        r = str(s2.check())
        if r in ("sat", "unsat"):
            PORTFOLIO_STATS["nlsat"] = PORTFOLIO_STATS.get("nlsat", 0) + 1
            return r, (s2.model() if r == "sat" else None)
    except z3.Z3Exception:
        pass
    # 1b counterexample guessing: pin (most of) the harness inputs to random rationals inside
    # their hint ranges and let the solver decide the much smaller instance.  `sat` of the
    # pinned instance is `sat` of the query (sound); anything else says nothing.
    m = _guess_model(s, timeout_ms)
    if m is not None:
        PORTFOLIO_STATS["guessed"] = PORTFOLIO_STATS.get("guessed", 0) + 1
        return "sat", m
    # 3 re-parsed in a fresh context (different term ids / variable order)
    try:
        ctx = z3.Context()
        s3 = z3.Solver(ctx=ctx)
        s3.from_string(s.to_smt2())
        s3.set("timeout", max(500, min(left(), timeout_ms // 4)))
        r = str(s3.check())
        if r == "unsat":
            PORTFOLIO_STATS["reparsed"] = PORTFOLIO_STATS.get("reparsed", 0) + 1
            return r, None
        if r == "sat":
            # bring the model back through the main context by re-solving with the values pinned
            m3 = s3.model()
            s.push()
            try:
                for d in m3.decls():
                    if d.arity() == 0:
                        v = m3[d]
                        if z3.is_rational_value(v):
                            s.add(z3.Real(d.name()) == z3.RealVal(str(v)))
                s.set("timeout", 2000)
                if str(s.check()) == "sat":
                    PORTFOLIO_STATS["reparsed"] = PORTFOLIO_STATS.get("reparsed", 0) + 1
                    return "sat", s.model()
            finally:
                s.pop()
    except z3.Z3Exception:
        pass
    # 4 default, rest of the budget
    s.set("timeout", left())
    r = str(s.check())
    if r in ("sat", "unsat"):
        PORTFOLIO_STATS["default-long"] = PORTFOLIO_STATS.get("default-long", 0) + 1
        return r, (s.model() if r == "sat" else None)
    return "unknown", None


def to_smt2(solver):
    return solver.to_smt2()


def cvc5_check(smt2_text, timeout_ms=20000):
    """second opinion with the cvc5 python wheel; returns 'sat'/'unsat'/'unknown'/'error:..'"""
    try:
        import cvc5
    except Exception as e:  # pragma: no cover
        return "error:nocvc5"
    try:
        tm = cvc5.TermManager() if hasattr(cvc5, "TermManager") else None
        slv = cvc5.Solver(tm) if tm is not None else cvc5.Solver()
        slv.setOption("tlimit-per", str(int(timeout_ms)))
        slv.setLogic("ALL")
        parser = cvc5.InputParser(slv)
        parser.setStringInput(cvc5.InputLanguage.SMT_LIB_2_6, smt2_text, "q")
        sm = parser.getSymbolManager()
        res = None
        while True:
            cmd = parser.nextCommand()
            if cmd.isNull():
                break
            out = cmd.invoke(slv, sm)
            o = str(out).strip()
            if o in ("sat", "unsat", "unknown"):
                res = o
            if "(error" in o:
                return "error:" + o[:100]
        return res or "unknown"
    except Exception as e:
        return "error:%s" % (str(e)[:100],)
