from .core import *   # noqa
from .core import ENGINE, Sym, SymR, SymBool
from .npatch import symbolic_numpy
