"""DFT stubs: numpy.fft.fft / ifft / hfft by their defining sums with *exact*
roots of unity (algebraic numbers pinned by polynomial constraints)."""
from fractions import Fraction

import numpy
import z3

from . import core
from .core import ENGINE, Sym, SymR, mk, lift, F0, F1, RV


def _alg(name, poly, lo, hi, square=None):
    """algebraic constant: z3 Real pinned by poly(v)==0 and lo<v<hi (isolating interval)"""
    key = ("alg", name)
    if key not in ENGINE.uf:
        v = z3.Real(name)
        ENGINE.uf[key] = v
        if square is not None:
            ENGINE.square_rules[name] = square() if callable(square) else z3.RealVal(square)
        ENGINE.assume(z3.And(poly(v) == 0, v > RV(Fraction(lo)), v < RV(Fraction(hi))),
                      "algebraic constant %s (exact, isolating interval)" % name, fact=True)
    return ENGINE.uf[key]


def r2():
    return _alg("r2", lambda v: v * v - 2, "1.41", "1.42", square=2)


def r3():
    return _alg("r3", lambda v: v * v - 3, "1.73", "1.74", square=3)


def r5():
    return _alg("r5", lambda v: v * v - 5, "2.23", "2.24", square=5)


def _cs_first_octantish(p, q):
    """(cos, sin) of 2*pi*p/q for 0<=p/q<1 as components, q | 24 or q in {5,10,20}"""
    fr = Fraction(p, q) % 1
    p, q = fr.numerator, fr.denominator
    H = Fraction(1, 2)
    if 24 % q == 0:
        k = p * (24 // q)   # angle = k * 15 degrees
        k %= 24
        # table for multiples of 15 degrees
        def base(k):  # 0..6 -> cos, sin of k*15deg
            if k == 0:
                return F1, F0
            if k == 1:
                return r2() * (r3() + 1) / 4, r2() * (r3() - 1) / 4
            if k == 2:
                return r3() / 2, H
            if k == 3:
                return r2() / 2, r2() / 2
            if k == 4:
                return H, r3() / 2
            if k == 5:
                return r2() * (r3() - 1) / 4, r2() * (r3() + 1) / 4
            if k == 6:
                return F0, F1
        quad, rem = divmod(k, 6)
        c, s = base(rem)
        for _ in range(quad):   # rotate by 90 degrees
            c, s = core.c_neg(s), c
        return c, s
    if 20 % q == 0:
        k = p * (20 // q)  # multiples of 18 degrees
        k %= 20
        # cos36 = (1+r5)/4, cos72=(r5-1)/4 ; sin18 = (r5-1)/4, cos18 = s18c
        def c18():
            return _alg("cos18", lambda v: 16 * v * v - (10 + 2 * r5()), "0.95", "0.96",
                        square=lambda: (10 + 2 * r5()) / 16)

        def s36():
            return _alg("sin36", lambda v: 16 * v * v - (10 - 2 * r5()), "0.58", "0.59",
                        square=lambda: (10 - 2 * r5()) / 16)

        def base(k):  # 0..5 -> k*18deg
            if k == 0:
                return F1, F0
            if k == 1:
                return c18(), (r5() - 1) / 4
            if k == 2:
                return (1 + r5()) / 4, s36()
            if k == 3:
                return s36(), (1 + r5()) / 4
            if k == 4:
                return (r5() - 1) / 4, c18()
            if k == 5:
                return F0, F1
        quad, rem = divmod(k, 5)
        c, s = base(rem)
        for _ in range(quad):
            c, s = core.c_neg(s), c
        return c, s
    return None


def _generic_roots(M):
    """all M-th roots of unity as fresh variables pinned by the group law,
    orthogonality and ordering facts (true of the real roots)"""
    key = ("roots", M)
    if key in ENGINE.uf:
        return ENGINE.uf[key]
    cs = [(F1, F0)]
    for k in range(1, M):
        cs.append((z3.Real("c%d_%d" % (M, k)), z3.Real("s%d_%d" % (M, k))))
    ENGINE.uf[key] = cs
    zz = core.z
    for k in range(1, M):
        c, s = cs[k]
        ENGINE.assume(c * c + s * s == 1, "generic roots of unity of order %d: group law, conjugation, sum=0, quadrant signs" % M)
        ck, sk = cs[M - k]
        ENGINE.assume(z3.And(c == zz(ck), s == -zz(sk)))
        # quadrant sign facts
        import math
        ang = 2 * math.pi * k / M
        cv, sv = math.cos(ang), math.sin(ang)
        for comp, val in ((c, cv), (s, sv)):
            if abs(val) < 1e-12:
                ENGINE.assume(comp == 0)
            else:
                lo = Fraction(val - 1e-3).limit_denominator(10 ** 6)
                hi = Fraction(val + 1e-3).limit_denominator(10 ** 6)
                ENGINE.assume(z3.And(comp > RV(lo), comp < RV(hi)))
    for j in range(1, M):
        for k in range(j, M):
            (a, b), (c, d) = cs[j], cs[k]
            e, f = cs[(j + k) % M]
            ENGINE.assume(z3.And(zz(a) * zz(c) - zz(b) * zz(d) == zz(e),
                                 zz(a) * zz(d) + zz(b) * zz(c) == zz(f)))
    ENGINE.assume(z3.Sum([zz(c) for c, s in cs]) == 0)
    ENGINE.assume(z3.Sum([zz(s) for c, s in cs]) == 0)
    return cs


def root_of_unity(p, M):
    """exp(2*pi*i*p/M) as an exact Sym"""
    p %= M
    if p == 0:
        return SymR(F1)
    fr = Fraction(p, M)
    cs = _cs_first_octantish(fr.numerator, fr.denominator)
    if cs is None:
        q = fr.denominator
        c, s = _generic_roots(q)[fr.numerator]
    else:
        c, s = cs
    c = c if isinstance(c, Fraction) else z3.simplify(c)
    s = s if isinstance(s, Fraction) else z3.simplify(s)
    return mk(c, s)


def _move_last(x, axis):
    x = numpy.asarray(x)
    if x.ndim > 1 and axis not in (-1, x.ndim - 1):
        return numpy.moveaxis(x, axis, -1), True
    return x, False


def _dft_1d(x, sign, scale):
    M = len(x)
    out = numpy.empty(M, dtype=object)
    for k in range(M):
        acc = SymR(F0)
        for n in range(M):
            acc = acc + lift(x[n]) * root_of_unity(sign * k * n, M)
        out[k] = acc * scale if scale != 1 else acc
    return out


def _apply(x, axis, f1d):
    x, moved = _move_last(x, axis)
    if x.ndim == 1:
        return f1d(x)
    out = None
    flat = x.reshape(-1, x.shape[-1])
    rows = [f1d(r) for r in flat]
    L = len(rows[0])
    out = numpy.empty((flat.shape[0], L), dtype=object)
    for i, r in enumerate(rows):
        out[i, :] = r
    out = out.reshape(x.shape[:-1] + (L,))
    if moved:
        out = numpy.moveaxis(out, -1, axis)
    return out


def p_fft(a, n=None, axis=-1, norm=None, out=None):
    a = numpy.asarray(a)
    if a.dtype != object:
        from .npatch import real
        return real("fft")(a, n, axis, norm)
    assert n is None and norm is None
    return _apply(a, axis, lambda x: _dft_1d(x, -1, 1))


def p_ifft(a, n=None, axis=-1, norm=None, out=None):
    a = numpy.asarray(a)
    if a.dtype != object:
        from .npatch import real
        return real("ifft")(a, n, axis, norm)
    assert n is None and norm is None
    return _apply(a, axis, lambda x: _dft_1d(x, +1, Fraction(1, len(x))))


def _hfft_1d(a, n):
    m = len(a)
    if n is None:
        n = 2 * (m - 1)
    # numpy: hfft(a, n) = irfft(conj(a), n) * n ; uses a[0 .. n//2]
    out = numpy.empty(n, dtype=object)
    half = n // 2
    for k in range(n):
        acc = lift(a[0]).real
        for j in range(1, half + 1):
            if j >= m:
                break
            aj = lift(a[j])
            if j == half and n % 2 == 0:
                # Nyquist term: only its real part enters
                term = aj.real * root_of_unity(j * k, n)
                acc = acc + term.real
            else:
                term = aj.conjugate() * root_of_unity(j * k, n)
                acc = acc + 2 * term.real
        out[k] = acc
    return out


def p_hfft(a, n=None, axis=-1, norm=None, out=None):
    a = numpy.asarray(a)
    if a.dtype != object:
        from .npatch import real
        return real("hfft")(a, n, axis, norm)
    assert norm is None
    return _apply(a, axis, lambda x: _hfft_1d(x, n))
